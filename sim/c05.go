package main

import (
	"bytes"
	"encoding/json"
	"fmt"
	"path/filepath"
	"sort"
	"strings"

	"fosim/common"
)

// ---- C05: transpilation is deterministic (schedule search over dictionary enumeration order) ----

var enumStyles = []string{"reverse", "shuffle", "rotate", "swap", "lastfirst", "mixed", "shuffle", "shuffle"}

// c05Budget bounds every C05 child in simulated time, so a schedule-dependent hang is a deterministic
// "did not accept" (exit 97) instead of a watchdog kill.
const c05Budget = int64(1_500_000_000)

func nonIdentitySites(r *Result) string {
	set := map[string]bool{}
	for _, e := range r.Enums() {
		if !isIdentityPerm(e.Perm) {
			set[e.Site] = true
		}
	}
	return strings.Join(sortedKeys(set), ",")
}

func diffSummary(a, b []byte) string {
	la, lb := bytes.Split(a, []byte{'\n'}), bytes.Split(b, []byte{'\n'})
	for i := 0; i < len(la) && i < len(lb); i++ {
		if !bytes.Equal(la[i], lb[i]) {
			return fmt.Sprintf("line %d: %q vs %q", i+1, clip(string(la[i]), 160), clip(string(lb[i]), 160))
		}
	}
	return fmt.Sprintf("%d vs %d lines", len(la), len(lb))
}

func clip(s string, n int) string {
	if len(s) > n {
		return s[:n] + "..."
	}
	return s
}

// c05Compare: a run must agree with the identity-schedule run of the same scenario on accept/reject and on
// the files written (set and bytes). Diagnostic text is deliberately not compared (DESIGN §5).
func c05Compare(r0, r1 *Result) *Violation {
	acc0, acc1 := r0.Exit == 0, r1.Exit == 0
	sites := nonIdentitySites(r1)
	if acc0 != acc1 {
		return &Violation{Class: "decision", Signature: "decision@" + sites,
			Detail: fmt.Sprintf("identity schedule exits %d, permuted schedule exits %d (budget exceeded: %v)\nidentity stdout tail: %s\npermuted stdout tail: %s\npermuted stderr tail: %s",
				r0.Exit, r1.Exit, r1.Budget, tail(r0.Stdout, 300), tail(r1.Stdout, 300), tail(r1.Stderr, 300))}
	}
	w0, w1 := r0.Written(), r1.Written()
	k0, k1 := sortedKeys(w0), sortedKeys(w1)
	if strings.Join(k0, "\n") != strings.Join(k1, "\n") {
		return &Violation{Class: "bytes", Signature: "bytes@" + sites,
			Detail: fmt.Sprintf("files written differ: identity %v, permuted %v", k0, k1)}
	}
	for _, k := range k0 {
		if !bytes.Equal(w0[k], w1[k]) {
			return &Violation{Class: "bytes", Signature: "bytes@" + sites,
				Detail: fmt.Sprintf("%s differs between the identity and the permuted enumeration order: %s", k, diffSummary(w0[k], w1[k]))}
		}
	}
	return nil
}

func tail(s string, n int) string {
	if len(s) > n {
		return "..." + s[len(s)-n:]
	}
	return s
}

// c05Repeat: run-to-run variation that does not come through pkg/dict (a raw Go map range, an address, the
// clock, the environment) is not owned by the scheduler; it shows as two runs of one and the same scenario and
// schedule that differ. Replay = run the scenario k times; any differing pair is the violation.
type c05Repeat struct {
	Repeat int `json:"repeat"`
}

func judgeC05Repeat(c *Ctx, sc *Scenario, k int) *Violation {
	_, v := c05RepeatFirst(c, sc, k)
	return v
}

// c05RepeatFirst also says which run was the first to differ (for calibrating the repeat count of the replay).
func c05RepeatFirst(c *Ctx, sc *Scenario, k int) (int, *Violation) {
	one := sc.Clone()
	one.Extra = nil
	r0 := c.sim(c.B.FcVerif, one)
	for i := 1; i < k; i++ {
		r := c.sim(c.B.FcVerif, one)
		if v := c05Compare(r0, r); v != nil {
			return i, &Violation{Class: "uncontrolled", Signature: "uncontrolled-nondeterminism:" + v.Class,
				Detail: fmt.Sprintf("run %d of the very same scenario under the very same enumeration schedule differs from run 0 (variation that does not come through pkg/dict): %s", i, v.Detail)}
		}
	}
	return 0, nil
}

// realDiff compares two real-directory runs (exit class, files changed and their bytes).
func realDiff(a, b *RealResult) string {
	if (a.Exit == 0) != (b.Exit == 0) {
		return fmt.Sprintf("exit %d vs %d", a.Exit, b.Exit)
	}
	ka, kb := sortedKeys(a.Changed), sortedKeys(b.Changed)
	if strings.Join(ka, "\n") != strings.Join(kb, "\n") {
		return fmt.Sprintf("files rewritten %v vs %v", ka, kb)
	}
	for _, k := range ka {
		if !bytes.Equal(a.Changed[k], b.Changed[k]) {
			return k + ": " + diffSummary(a.Changed[k], b.Changed[k])
		}
	}
	return ""
}

type c05RealRepeat struct {
	RealRepeat int `json:"real_repeat"`
}

func judgeC05(c *Ctx, sc *Scenario) *Violation {
	if sc.Real && len(sc.Extra) > 0 {
		var rr c05RealRepeat
		if json.Unmarshal(sc.Extra, &rr) == nil && rr.RealRepeat > 1 {
			r0 := RunReal(c.B.FcOff, sc, c.Work)
			for i := 1; i < rr.RealRepeat; i++ {
				if d := realDiff(r0, RunReal(c.B.FcOff, sc, c.Work)); d != "" {
					return &Violation{Class: "uncontrolled", Signature: "uncontrolled-nondeterminism:real-directory",
						Detail: fmt.Sprintf("the shipped fc run %d times on identical fresh copies of one directory leaves different results (run %d vs run 0): %s", rr.RealRepeat, i, d)}
				}
			}
			return nil
		}
	}
	if sc.Real {
		newer := sc.Clone()
		newer.Disk.OutputsOlder = false
		older := sc.Clone()
		older.Disk.OutputsOlder = true
		if d := realDiff(RunReal(c.B.FcOff, newer, c.Work), RunReal(c.B.FcOff, older, c.Work)); d != "" {
			return &Violation{Class: "environment", Signature: "environment:file-modification-times",
				Detail: "the shipped fc on a real directory gives another result when the pre-existing outputs are newer than the sources than when they are older: " + d}
		}
		return nil
	}
	if len(sc.Extra) > 0 {
		var rp c05Repeat
		if json.Unmarshal(sc.Extra, &rp) == nil && rp.Repeat > 1 {
			return judgeC05Repeat(c, sc, rp.Repeat)
		}
	}
	id := sc.Clone()
	id.Enum = EnumSched{Mode: "identity"}
	id.NsPerTick, id.Env = 0, nil
	r0 := c.sim(c.B.FcVerif, id)
	r1 := c.sim(c.B.FcVerif, sc)
	v := c05Compare(r0, r1)
	if v != nil && nonIdentitySites(r1) == "" {
		// no enumeration point is permuted any more: what is left of the difference is the clock or the environment
		switch {
		case sc.NsPerTick > 1 && len(sc.Env) == 0:
			v.Signature = v.Class + "@clock"
			v.Detail = fmt.Sprintf("with the simulated wall clock at %d ns per step (a slow machine) and nothing else changed: %s", sc.NsPerTick, v.Detail)
		case len(sc.Env) > 0 && sc.NsPerTick <= 1:
			v.Signature = v.Class + "@environment"
			v.Detail = fmt.Sprintf("with environment %v and nothing else changed: %s", sc.Env, v.Detail)
		}
	}
	return v
}

// shrinkTape minimises the enumeration schedule of a failing scenario: seeded -> explicit tape, ddmin over
// the non-identity points, then every surviving permutation is replaced by a single transposition when the
// failure (same class) persists.
func shrinkTape(c *Ctx, sc *Scenario, class string, judge Judge) *Scenario {
	cur := sc.Clone()
	if cur.Enum.Mode != "tape" {
		r := c.sim(binaryFor(c, sc), cur)
		cur.Enum = EnumSched{Mode: "tape", Tape: r.TapeOf()}
		if v := judge(c, cur); v == nil || v.Class != class {
			return sc // cannot convert faithfully; keep the seeded schedule
		}
	}
	keys := sortedKeys(cur.Enum.Tape)
	sort.Slice(keys, func(i, j int) bool { return atoi(keys[i]) < atoi(keys[j]) })
	full := cur.Enum.Tape
	mk := func(keep []int) *Scenario {
		s := cur.Clone()
		s.Enum.Tape = map[string][]int{}
		for _, i := range keep {
			s.Enum.Tape[keys[i]] = full[keys[i]]
		}
		return s
	}
	keep := common.DDMin(len(keys), func(keep []int) bool {
		v := judge(c, mk(keep))
		return v != nil && v.Class == class
	})
	cur = mk(keep)
	for _, k := range sortedKeys(cur.Enum.Tape) {
		p := cur.Enum.Tape[k]
		n := len(p)
		done := false
		for i := 0; i < n-1 && !done; i++ {
			for j := i + 1; j < n && !done; j++ {
				t := make([]int, n)
				for x := range t {
					t[x] = x
				}
				t[i], t[j] = t[j], t[i]
				s := cur.Clone()
				s.Enum.Tape[k] = t
				if v := judge(c, s); v != nil && v.Class == class {
					cur = s
					done = true
				}
			}
		}
	}
	return cur
}

func atoi(s string) int {
	n := 0
	fmt.Sscan(s, &n)
	return n
}

func binaryFor(c *Ctx, sc *Scenario) string {
	if sc.Program == "build_sample_md" {
		return c.B.BsmVerif
	}
	return c.B.FcVerif
}

func shrinkC05(c *Ctx, sc *Scenario, v *Violation, judge Judge) (*Scenario, *Violation) {
	cur := shrinkTape(c, sc, v.Class, judge)
	cur = shrinkProgram(c, cur, v.Class, judge)
	cur = shrinkTape(c, cur, v.Class, judge)
	nv := judge(c, cur)
	if nv == nil || nv.Class != v.Class {
		return sc, v
	}
	return cur, nv
}

type c05Item struct {
	prog      *Program
	sched     EnumSched
	run       int
	nsPerTick int64
	env       []string
	faults    []Fault  // a failing output device: the same fault in the identity run this run is compared with
	dirs      []string // ... or a directory where an output file should go
}

func checkC05(tier string) {
	c := newCtx("C05", tier, "fc")
	pkgAllFoi = mustRead(filepath.Join(c.B.Repo, "pkg", "pkg_all.foi"))
	rng := common.NewRng(common.Mix(c.Seed, 5))

	// workload: repository corpus + generated programs
	type planned struct {
		p *Program
		m int // seeded schedules for this program
		r int // shipped-binary repeats
	}
	var plan []planned
	quick := tier == "quick"
	selfM, sampleM, snipM, genN, genM, realR := 24, 16, 10, 2000, 8, 3
	if !quick {
		selfM, sampleM, snipM, genN, genM, realR = 300, 150, 60, 25000, 16, 12
	}
	plan = append(plan, planned{corpusSelfBuild(c.B.Repo), selfM, 2})
	plan = append(plan, planned{corpusTool(c.B.Repo), sampleM, realR})
	for _, p := range corpusSamples(c.B.Repo) {
		plan = append(plan, planned{p, sampleM, realR})
	}
	for _, p := range corpusSnippets(c.B.Repo) {
		plan = append(plan, planned{p, snipM, 1})
	}
	for _, p := range c05HandCorpus() {
		plan = append(plan, planned{p, sampleM, realR})
	}
	for i := 0; i < genN; i++ {
		p := genProgramC05(common.NewRng(common.Mix(c.Seed, 505, uint64(i))), i)
		plan = append(plan, planned{p, genM, 1})
	}
	_ = rng

	c.phase("identity runs")
	// identity runs first (one per program), then all seeded runs as one flat index space
	ids := parallel(c, len(plan), func(i int) *Result {
		sc := plan[i].p.scenario("C05", c.Seed, i)
		sc.TickBudget = c05Budget
		return c.sim(c.B.FcVerif, sc)
	}, nil)
	if len(ids) != len(plan) {
		harnessFail("identity batch incomplete")
	}
	accepted := 0
	for i, r := range ids {
		if r.Exit == 0 {
			accepted++
			c.count("program_accepted", 1)
		} else {
			c.count("program_rejected", 1)
			if r.Budget {
				c.count("identity_budget_exceeded", 1)
			}
		}
		if len(r.Enums()) > 0 {
			c.count("programs_with_schedule_points", 1)
		}
		_ = i
	}
	// every program once more under the identity schedule: two runs of the same scenario must agree
	c.phase("identity runs, second time (uncontrolled nondeterminism)")
	ids2 := parallel(c, len(plan), func(i int) *Violation {
		sc := plan[i].p.scenario("C05", c.Seed, i)
		sc.TickBudget = c05Budget
		return c05Compare(ids[i], c.sim(c.B.FcVerif, sc))
	}, nil)
	var uncontrolled []*Scenario
	for i, v := range ids2 {
		if v != nil {
			c.count("identity_rerun_mismatches", 1)
			sc := plan[i].p.scenario("C05", c.Seed, i)
			sc.TickBudget = c05Budget
			uncontrolled = append(uncontrolled, sc)
		}
	}
	var items []c05Item
	for i, pl := range plan {
		if len(ids[i].Enums()) == 0 {
			c.count("programs_without_schedule_points(skipped)", 1)
			continue // no scheduling point: every schedule is the identity schedule
		}
		pr := common.NewRng(common.Mix(c.Seed, 55, uint64(i)))
		for j := 0; j < pl.m; j++ {
			s := EnumSched{Mode: "seeded", Seed: pr.Next(), Style: enumStyles[j%len(enumStyles)]}
			if j >= len(enumStyles) {
				s.Style = enumStyles[pr.Intn(len(enumStyles))]
				// swarm: sometimes restrict to one call site or to a window of points
				switch pr.Intn(6) {
				case 0:
					sites := map[string]bool{}
					for _, e := range ids[i].Enums() {
						sites[e.Site] = true
					}
					ks := sortedKeys(sites)
					s.OnlySite = ks[pr.Intn(len(ks))]
				case 1:
					n := len(ids[i].Enums())
					s.From = pr.Intn(n)
				case 2:
					n := len(ids[i].Enums())
					s.To = 1 + pr.Intn(n)
				}
			}
			it := c05Item{prog: pl.p, sched: s, run: i*1000 + j}
			// swarm: the speed of the simulated wall clock and the process environment are part of what a run must
			// not depend on ("the process, or how many times it is run")
			if j%3 == 1 {
				it.nsPerTick = []int64{1000, 1_000_000, 50_000_000}[pr.Intn(3)]
			}
			// a failing output device is part of "the same files": which outputs exist afterwards (and the decision)
			// must still not depend on the enumeration order. Only for invocations that write two or more files.
			if outs := sortedKeys(ids[i].Written()); len(outs) >= 2 && j%4 == 3 {
				switch pr.Intn(3) {
				case 0:
					it.faults = []Fault{{Op: "write", Nth: 1 + pr.Intn(len(outs)), Kind: "error"}}
				case 1:
					it.faults = []Fault{{Op: "write", Nth: 1 + pr.Intn(len(outs)), Kind: "enospc", After: pr.Intn(200)}}
				default:
					it.dirs = []string{outs[pr.Intn(len(outs))]}
				}
			}
			if j%3 == 2 {
				pool := []string{"HOME=/nonexistent/home", "USER=someone", "LANG=ja_JP.UTF-8", "LC_ALL=C", "TZ=Asia/Tokyo", "TMPDIR=/nonexistent/tmp",
					"TERM=dumb", "NO_COLOR=1", "DEBUG=1", "VERBOSE=1", "FC_DEBUG=1", "FOLANG_PATH=/nonexistent", "GOPATH=/nonexistent/go", "PWD=/nonexistent/pwd"}
				for _, e := range pool {
					if pr.Chance(1, 3) {
						it.env = append(it.env, e)
					}
				}
			}
			items = append(items, it)
		}
	}
	c.phase(fmt.Sprintf("seeded runs: %d", len(items)))
	progIndex := map[*Program]int{}
	for i, pl := range plan {
		progIndex[pl.p] = i
	}
	type outcome struct {
		sc *Scenario
		v  *Violation
	}
	evaluations := 0
	outs := parallel(c, len(items), func(k int) outcome {
		it := items[k]
		sc := it.prog.scenario("C05", c.Seed, it.run)
		sc.Enum = it.sched
		sc.TickBudget = c05Budget
		sc.NsPerTick = it.nsPerTick
		sc.Env = it.env
		if it.nsPerTick > 1 {
			c.count(fmt.Sprintf("fault_fired:slow_clock_ns_per_tick=%d", it.nsPerTick), 1)
		}
		if len(it.env) > 0 {
			c.count("fault_fired:environment_varied", 1)
		}
		r0 := ids[progIndex[it.prog]]
		if len(it.faults) > 0 || len(it.dirs) > 0 {
			sc.Faults = it.faults
			sc.Disk.Dirs = append(sc.Disk.Dirs, it.dirs...)
			id := sc.Clone()
			id.Enum = EnumSched{Mode: "identity"}
			id.NsPerTick, id.Env = 0, nil
			r0 = c.sim(c.B.FcVerif, id)
			failed := 0
			for _, w := range r0.Writes() {
				if !w.Ok {
					failed++
				}
			}
			if failed > 0 {
				c.count("fault_fired:write_failure_in_multi_output_invocation", 1)
			}
		}
		r1 := c.sim(c.B.FcVerif, sc)
		if r1.PermutedPoints() > 0 && c.markDistinct("pair:"+sc.Hash()+"|"+r1.EnumTraceHash()) {
			c.count("distinct_nontrivial", 1)
		}
		if it.prog.Name == "self-build" || k%97 == 0 {
			c.addSample(map[string]any{"program": it.prog.Name, "argv": it.prog.Argv, "schedule": it.sched,
				"enum_points": len(r1.Enums()), "points_permuted": r1.PermutedPoints(), "exit": r1.Exit, "ticks": r1.Ticks,
				"files_written": sortedKeys(r1.Written())}, 12)
		}
		return outcome{sc, c05Compare(r0, r1)}
	}, nil)
	evaluations = len(outs)

	c.phase("shrinking and reporting")
	violations := 0
	seenSig := map[string]bool{}
	// smallest programs first: their minimal schedules then explain the mismatches of the big ones cheaply
	var bad []outcome
	for _, o := range outs {
		if o.v != nil {
			c.count("raw_mismatches", 1)
			bad = append(bad, o)
		}
	}
	sort.SliceStable(bad, func(i, j int) bool { return scenarioSize(bad[i].sc) < scenarioSize(bad[j].sc) })
	explainedProg := map[string]bool{}
	fullShrinks := 0
	// uncontrolled nondeterminism first: it would make every other mismatch unreproducible
	sort.SliceStable(uncontrolled, func(i, j int) bool { return scenarioSize(uncontrolled[i]) < scenarioSize(uncontrolled[j]) })
	for _, o := range bad {
		if len(uncontrolled) < 40 {
			id := o.sc.Clone()
			id.Enum = EnumSched{Mode: "identity"}
			uncontrolled = append(uncontrolled, id)
		}
	}
	for k, sc := range uncontrolled {
		if k >= 12 || violations > 0 {
			break
		}
		rp, _ := json.Marshal(c05Repeat{Repeat: 24})
		sc.Extra = rp
		v := judgeC05(c, sc)
		if v == nil {
			continue
		}
		small := shrinkProgram(c, sc, v.Class, judgeC05)
		if nv := judgeC05(c, small); nv != nil && nv.Class == v.Class {
			sc, v = small, nv
		}
		// a rare variation needs more repeats to replay reliably: the replay runs a dozen times as many repeats as
		// the variation took to show (worst of two measurements), between 48 and 1200
		worst := 0
		for m := 0; m < 2; m++ {
			if i, fv := c05RepeatFirst(c, sc, 300); fv != nil && i > worst {
				worst = i
			} else if fv == nil {
				worst = 100
			}
		}
		n := 12 * (worst + 1)
		if n < 48 {
			n = 48
		}
		if n > 1200 {
			n = 1200
		}
		rp2, _ := json.Marshal(c05Repeat{Repeat: n})
		sc.Extra = rp2
		if !seenSig[v.Signature] {
			seenSig[v.Signature] = true
			if c.report(sc, v, judgeC05, nil) {
				violations++
			}
		}
	}
	for _, o := range bad {
		explainedProg[o.sc.Note] = true
		c.count("mismatch_program_kind:"+strings.SplitN(o.sc.Note, ":", 2)[0], 1)
		if sig := c05Attribute(c, o.sc, o.v, seenSig); sig != "" {
			c.count("mismatch_attributed:"+sig, 1)
			continue
		}
		if fullShrinks >= 6 {
			c.count("mismatch_not_shrunk(limit)", 1)
			continue
		}
		fullShrinks++
		ssc, sv := shrinkC05(c, o.sc, o.v, judgeC05)
		if seenSig[sv.Signature] {
			continue
		}
		seenSig[sv.Signature] = true
		if c.report(ssc, sv, judgeC05, nil) {
			violations++
		}
	}

	c.phase("shipped-binary observation")
	// observation under Go's own map randomisation: the shipped binary on a real directory
	type realJob struct {
		i int
	}
	var rjobs []realJob
	for i, pl := range plan {
		for j := 0; j < pl.r; j++ {
			rjobs = append(rjobs, realJob{i})
		}
	}
	type realOut struct {
		i   int
		msg string
	}
	routs := parallel(c, len(rjobs), func(k int) realOut {
		i := rjobs[k].i
		sc := plan[i].p.scenario("C05", c.Seed, i)
		if i%3 == 0 {
			// outputs of an earlier run present (and newer than the sources): the result must not depend on them
			for _, o := range plan[i].p.Outputs {
				sc.Disk.Put(filepath.Clean(o), []byte("// stale output of an earlier run\npackage main\n"), "stale")
			}
		}
		rr := RunReal(c.B.FcOff, sc, c.Work)
		if i%3 == 0 {
			// the same directory with the old outputs older than the sources instead: same result demanded
			older := sc.Clone()
			older.Disk.OutputsOlder = true
			r2 := RunReal(c.B.FcOff, older, c.Work)
			if d := realDiff(rr, r2); d != "" {
				return realOut{i, "MTIME:" + d}
			}
		}
		c.count("shipped_binary_runs", 1)
		if rr.Watchdog {
			return realOut{i, "watchdog"}
		}
		r0 := ids[i]
		if (rr.Exit == 0) != (r0.Exit == 0) {
			return realOut{i, fmt.Sprintf("shipped binary exits %d, simulated identity run exits %d", rr.Exit, r0.Exit)}
		}
		w0 := r0.Written()
		if strings.Join(sortedKeys(w0), "\n") != strings.Join(sortedKeys(rr.Changed), "\n") {
			// a file rewritten with identical bytes does not show as changed on the real disk: only flag real differences
			for k, b := range rr.Changed {
				if !bytes.Equal(w0[k], b) {
					return realOut{i, fmt.Sprintf("shipped binary wrote %s differently from the simulated identity run", k)}
				}
			}
			for k, b := range w0 {
				if old, ok := sc.Disk.Get(k); ok && bytes.Equal(old, b) {
					continue
				}
				if _, ok := rr.Changed[k]; !ok {
					return realOut{i, fmt.Sprintf("simulated identity run wrote %s, shipped binary did not", k)}
				}
			}
			return realOut{i, ""}
		}
		for k, b := range rr.Changed {
			if !bytes.Equal(w0[k], b) {
				return realOut{i, fmt.Sprintf("shipped binary wrote %s differently from the simulated identity run: %s", k, diffSummary(w0[k], b))}
			}
		}
		return realOut{i, ""}
	}, nil)
	unexplained := []string{}
	for _, ro := range routs {
		if ro.msg == "" {
			continue
		}
		if strings.HasPrefix(ro.msg, "MTIME:") {
			c.count("shipped_binary_mtime_dependence", 1)
			if !seenSig["environment:file-modification-times"] {
				seenSig["environment:file-modification-times"] = true
				sc := plan[ro.i].p.scenario("C05", c.Seed, ro.i)
				for _, o := range plan[ro.i].p.Outputs {
					sc.Disk.Put(filepath.Clean(o), []byte("// stale output of an earlier run\npackage main\n"), "stale")
				}
				sc.Real = true
				v := &Violation{Class: "environment", Signature: "environment:file-modification-times",
					Detail: "the shipped fc on a real directory gives another result when the pre-existing outputs are newer than the sources than when they are older: " + strings.TrimPrefix(ro.msg, "MTIME:")}
				if c.report(sc, v, judgeC05, nil) {
					violations++
				}
			}
			continue
		}
		c.count("shipped_binary_disagreements", 1)
		// Is the disagreement explained by a schedule-dependence already reported for this program?
		explained := explainedProg[plan[ro.i].p.Name]
		if !explained {
			// dig: many more schedules on this one program
			p := plan[ro.i].p
			pr := common.NewRng(common.Mix(c.Seed, 5555, uint64(ro.i)))
			for j := 0; j < 300 && !explained; j++ {
				sc := p.scenario("C05", c.Seed, ro.i*1000+900+j)
				sc.Enum = EnumSched{Mode: "seeded", Seed: pr.Next(), Style: "shuffle"}
				sc.TickBudget = c05Budget
				if v := judgeC05(c, sc); v != nil {
					explained = true
					ssc, sv := shrinkC05(c, sc, v, judgeC05)
					if !seenSig[sv.Signature] {
						seenSig[sv.Signature] = true
						if c.report(ssc, sv, judgeC05, nil) {
							violations++
						}
					}
				}
			}
		}
		if !explained {
			unexplained = append(unexplained, plan[ro.i].p.Name+": "+ro.msg)
		}
	}
	// the shipped binary twice on identical fresh copies of a directory in which one output cannot be written
	// (a directory sits where it should go): what is left behind must be the same both times. Run-to-run
	// variation on an error path (temporary names, partial state) does not pass through pkg/dict or the
	// simulated disk, so only this leg sees it.
	c.phase("shipped binary, unwritable output, repeated")
	var rrProgs []int
	for i, pl := range plan {
		if len(pl.p.Outputs) > 0 && (i%5 == 2 || !strings.HasPrefix(pl.p.Name, "gen:")) {
			rrProgs = append(rrProgs, i)
		}
	}
	rrOuts := parallel(c, len(rrProgs), func(k int) outcome {
		i := rrProgs[k]
		sc := plan[i].p.scenario("C05", c.Seed, i)
		outsP := plan[i].p.Outputs
		sc.Disk.Dirs = append(sc.Disk.Dirs, filepath.Clean(outsP[k%len(outsP)]))
		sc.Real = true
		x, _ := json.Marshal(c05RealRepeat{RealRepeat: 3})
		sc.Extra = x
		c.count("shipped_binary_unwritable_output_repeats", 1)
		return outcome{sc, judgeC05(c, sc)}
	}, nil)
	for _, o := range rrOuts {
		if o.v != nil && !seenSig[o.v.Signature] {
			seenSig[o.v.Signature] = true
			small := shrinkProgram(c, o.sc, o.v.Class, judgeC05)
			if nv := judgeC05(c, small); nv != nil && nv.Class == o.v.Class {
				o.sc, o.v = small, nv
			}
			if c.report(o.sc, o.v, judgeC05, nil) {
				violations++
			}
		}
	}
	if len(unexplained) > 0 && violations == 0 {
		harnessFail("shipped binary disagrees with the simulated identity run and no schedule explains it (seam fidelity): %v", unexplained)
	}

	c.writeEvidence("exploration", evaluations, c.Counters["distinct_nontrivial"],
		"one evaluation = one fc child run under a seeded enumeration schedule compared (accept/reject, set and bytes of files written) with the identity-schedule run of the same program; distinct and non-trivial = the pair (program hash, enumeration-trace hash) is new and at least one enumeration point with n>=2 was really permuted. Programs: repository self-build, tool, samples, test-suite snippets, hand corpus, generated programs (DESIGN 4.2).",
		map[string]any{
			"programs":                       len(plan),
			"programs_accepted_identity":     accepted,
			"schedule_styles":                enumStyles,
			"shipped_binary_observation":     "tag-off uninstrumented fc on a real directory under Go's own map randomisation, compared with the simulated identity run; observation only, the deciding step is the schedule search",
			"fault_kinds_injected":           "write faults in a quarter of the seeded runs of invocations with two or more outputs (failed open, ENOSPC after n bytes, directory in the place of an output), the same fault in the identity run compared with; the shipped binary 3x on fresh copies of a directory with an unwritable output. Environment dimensions that are scheduled: dictionary enumeration order (every seeded run), speed of the simulated wall clock (a third of the seeded runs: 1e3, 1e6 or 5e7 ns per step; dormant while fc reads no clock), process environment (a third: random subset of 14 variables); counts under counters fault_fired:*",
			"tick_budget_per_child":          c05Budget,
			"simulated_time_covered_ticks":   c.TotalTicks,
		},
		[]string{"the canonical order of the seam (sorted keys) is one total order; schedules are permutations relative to it",
			"dictionary keys print deterministically (all enumerated dictionaries of fc have string keys)",
			"diagnostic text is not compared: the property speaks about output files and the accept/reject decision"},
		violations)
	finish(c, violations)
}

func scenarioSize(sc *Scenario) int {
	n := 0
	for _, f := range sc.Disk.Files {
		n += len(f.B64)
	}
	return n
}

// c05Attribute: does a mismatch persist when only the enumeration points at the call sites of an already
// minimised signature stay permuted? Then it is counted under that signature instead of being shrunk again.
func c05Attribute(c *Ctx, sc *Scenario, v *Violation, seen map[string]bool) string {
	if len(seen) == 0 {
		return ""
	}
	r := c.sim(c.B.FcVerif, sc)
	for _, sig := range sortedKeys(seen) {
		at := strings.Index(sig, "@")
		if at < 0 || sig[:at] != v.Class {
			continue
		}
		sites := map[string]bool{}
		for _, x := range strings.Split(sig[at+1:], ",") {
			sites[x] = true
		}
		s := sc.Clone()
		s.Enum = EnumSched{Mode: "tape", Tape: map[string][]int{}}
		for _, e := range r.Enums() {
			if sites[e.Site] && !isIdentityPerm(e.Perm) {
				s.Enum.Tape[fmt.Sprint(e.K)] = e.Perm
			}
		}
		if nv := judgeC05(c, s); nv != nil && nv.Class == v.Class {
			return sig
		}
	}
	return ""
}
