package main

import (
	"encoding/json"
	"fmt"
	"os"
	"reflect"
	"sort"
	"strconv"
	"strings"
	"time"

	"fosim/common"

	"github.com/karino2/folang/pkg/frt"
	"github.com/karino2/folang/pkg/slice"
)

// ---- C12: no slice-package call changes an existing slice value (history search, invariant every step) ----

type T2 = frt.Tuple2[int, string]

type pval struct {
	id       int
	typ      string
	v        any
	snap     any
	producer string
}

const maxPooledLen = 64

type engC12 struct {
	pool  map[int]*pval
	order []int
	// reach probes
	argSpare  bool
	argShared bool
}

func deepCopy(v any) any {
	switch s := v.(type) {
	case []int:
		return append([]int{}, s...)
	case []string:
		return append([]string{}, s...)
	case []T2:
		return append([]T2{}, s...)
	case []float64:
		return append([]float64{}, s...)
	case [][]int:
		out := make([][]int, len(s))
		for i := range s {
			out[i] = append([]int{}, s[i]...)
		}
		return out
	}
	panic("deepCopy: unknown type")
}

func sameContents(a, b any) bool {
	switch x := a.(type) {
	case []int:
		y := b.([]int)
		if len(x) != len(y) {
			return false
		}
		for i := range x {
			if x[i] != y[i] {
				return false
			}
		}
		return true
	case []string:
		y := b.([]string)
		if len(x) != len(y) {
			return false
		}
		for i := range x {
			if x[i] != y[i] {
				return false
			}
		}
		return true
	case []T2:
		y := b.([]T2)
		if len(x) != len(y) {
			return false
		}
		for i := range x {
			if x[i] != y[i] {
				return false
			}
		}
		return true
	case [][]int:
		y := b.([][]int)
		if len(x) != len(y) {
			return false
		}
		for i := range x {
			if !sameContents(x[i], y[i]) {
				return false
			}
		}
		return true
	case []float64:
		y := b.([]float64)
		if len(x) != len(y) {
			return false
		}
		for i := range x {
			if x[i] != y[i] {
				return false
			}
		}
		return true
	}
	return false
}

func lenOf(v any) int { return reflect.ValueOf(v).Len() }
func capOf(v any) int { return reflect.ValueOf(v).Cap() }
func typeOf(v any) string {
	switch v.(type) {
	case []int:
		return "[]int"
	case []string:
		return "[]string"
	case []T2:
		return "[]T2"
	case [][]int:
		return "[][]int"
	case []float64:
		return "[]float64"
	}
	return "?"
}

// arrayRange is the address range of the backing array (0,0 for a capacity-less slice).
func arrayRange(v any) (uintptr, uintptr) {
	rv := reflect.ValueOf(v)
	if rv.Cap() == 0 {
		return 0, 0
	}
	start := rv.Pointer()
	return start, start + uintptr(rv.Cap())*rv.Type().Elem().Size()
}

func (e *engC12) shares(p *pval) bool {
	a0, a1 := arrayRange(p.v)
	if a0 == a1 {
		return false
	}
	for _, id := range e.order {
		q := e.pool[id]
		if q == p {
			continue
		}
		b0, b1 := arrayRange(q.v)
		if b0 != b1 && a0 < b1 && b0 < a1 {
			return true
		}
	}
	return false
}

func (e *engC12) add(id int, v any, producer string) {
	e.pool[id] = &pval{id: id, typ: typeOf(v), v: v, snap: deepCopy(v), producer: producer}
	e.order = append(e.order, id)
}

func (e *engC12) ref(arg string) *pval {
	if !strings.HasPrefix(arg, "#") {
		return nil
	}
	id, err := strconv.Atoi(arg[1:])
	if err != nil {
		return nil
	}
	p := e.pool[id]
	if p != nil {
		if capOf(p.v) > lenOf(p.v) {
			e.argSpare = true
		}
		if e.shares(p) {
			e.argShared = true
		}
	}
	return p
}

// ---- the fixed family of total pure functions (referenced by id in a history) ----

var intMaps = map[string]func(int) int{"int.inc": func(x int) int { return x + 1 }, "int.dbl": func(x int) int { return 2 * x },
	"int.neg": func(x int) int { return -x }, "int.id": func(x int) int { return x }, "int.const7": func(int) int { return 7 }}
var intPreds = map[string]func(int) bool{"int.even": func(x int) bool { return x%2 == 0 }, "int.pos": func(x int) bool { return x > 0 },
	"any.true": func(int) bool { return true }, "any.false": func(int) bool { return false }}
var strMaps = map[string]func(string) string{"str.id": func(s string) string { return s }, "str.addx": func(s string) string { return s + "x" },
	"str.upper": strings.ToUpper}
var strPreds = map[string]func(string) bool{"str.nonempty": func(s string) bool { return s != "" }, "str.hasA": func(s string) bool { return strings.Contains(s, "a") },
	"any.true": func(string) bool { return true }, "any.false": func(string) bool { return false }}
var t2Maps = map[string]func(T2) T2{"t2.id": func(t T2) T2 { return t }, "t2.inc": func(t T2) T2 { return frt.NewTuple2(t.E0+1, t.E1) }}
var t2Preds = map[string]func(T2) bool{"t2.even": func(t T2) bool { return t.E0%2 == 0 }, "any.true": func(T2) bool { return true }, "any.false": func(T2) bool { return false }}
var nestMaps = map[string]func([]int) []int{"nest.id": func(s []int) []int { return s }, "nest.tail": func(s []int) []int {
	if len(s) == 0 {
		return s
	}
	return slice.Tail(s)
}}
var nestPreds = map[string]func([]int) bool{"nest.nonempty": func(s []int) bool { return len(s) > 0 }, "any.true": func([]int) bool { return true }, "any.false": func([]int) bool { return false }}

func keysOf[V any](m map[string]V) []string {
	ks := make([]string, 0, len(m))
	for k := range m {
		ks = append(ks, k)
	}
	sort.Strings(ks)
	return ks
}

type family[T any] struct {
	maps  map[string]func(T) T
	preds map[string]func(T) bool
	proj  func(T) int
	parse func(e *engC12, s string) (T, bool)
}

func famInt() family[int] {
	return family[int]{intMaps, intPreds, func(x int) int { return x }, func(e *engC12, s string) (int, bool) { n, err := strconv.Atoi(s); return n, err == nil }}
}
func famStr() family[string] {
	return family[string]{strMaps, strPreds, func(s string) int { return len(s) }, func(e *engC12, s string) (string, bool) {
		if strings.HasPrefix(s, "#") {
			return "", false
		}
		return s, true
	}}
}
func famT2() family[T2] {
	return family[T2]{t2Maps, t2Preds, func(t T2) int { return t.E0 }, func(e *engC12, s string) (T2, bool) {
		i := strings.Index(s, ":")
		if i < 0 {
			return T2{}, false
		}
		n, err := strconv.Atoi(s[:i])
		return frt.NewTuple2(n, s[i+1:]), err == nil
	}}
}

var fltMaps = map[string]func(float64) float64{"flt.id": func(x float64) float64 { return x }, "flt.half": func(x float64) float64 { return x / 2 }}
var fltPreds = map[string]func(float64) bool{"flt.pos": func(x float64) bool { return x > 0 }, "any.true": func(float64) bool { return true }, "any.false": func(float64) bool { return false }}

func famFlt() family[float64] {
	return family[float64]{fltMaps, fltPreds, func(x float64) int { return int(x) }, func(e *engC12, s string) (float64, bool) {
		f, err := strconv.ParseFloat(s, 64)
		return f, err == nil
	}}
}

func famNest() family[[]int] {
	return family[[]int]{nestMaps, nestPreds, func(s []int) int { return len(s) }, func(e *engC12, s string) ([]int, bool) {
		p := e.ref(s)
		if p == nil {
			return nil, false
		}
		v, ok := p.v.([]int)
		return v, ok
	}}
}

// applySame runs the operations whose result has the element type of their (first) slice argument.
// It returns (result slice or nil, executed).
func applySame[T any](e *engC12, op Op, s []T, fam family[T]) (any, bool) {
	arg := func(i int) string {
		if i < len(op.Args) {
			return op.Args[i]
		}
		return ""
	}
	switch op.F {
	case "slice.Length":
		_ = slice.Length(s)
	case "slice.Len":
		_ = slice.Len(s)
	case "slice.IsEmpty":
		_ = slice.IsEmpty(s)
	case "slice.IsNotEmpty":
		_ = slice.IsNotEmpty(s)
	case "slice.Last":
		if len(s) == 0 {
			return nil, false
		}
		_ = slice.Last(s)
	case "slice.Head":
		if len(s) == 0 {
			return nil, false
		}
		_ = slice.Head(s)
	case "slice.Item":
		i, err := strconv.Atoi(arg(0))
		if err != nil || i < 0 || i >= len(s) {
			return nil, false
		}
		_ = slice.Item(i, s)
	case "slice.Tail":
		if len(s) == 0 {
			return nil, false
		}
		return slice.Tail(s), true
	case "slice.PopLast":
		if len(s) == 0 {
			return nil, false
		}
		return slice.PopLast(s), true
	case "slice.Take":
		n, err := strconv.Atoi(arg(0))
		if err != nil || n < 0 || n > len(s) {
			return nil, false
		}
		return slice.Take(n, s), true
	case "slice.Skip":
		n, err := strconv.Atoi(arg(0))
		if err != nil || n < 0 {
			return nil, false
		}
		return slice.Skip(n, s), true
	case "slice.PushLast":
		el, ok := fam.parse(e, arg(0))
		if !ok {
			return nil, false
		}
		return slice.PushLast(el, s), true
	case "slice.PushHead":
		el, ok := fam.parse(e, arg(0))
		if !ok {
			return nil, false
		}
		return slice.PushHead(el, s), true
	case "slice.Map":
		if op.Fn == "reenter.pushlast" {
			// a callback that itself calls the library on the slice being traversed (and drops the result):
			// pure from the program's point of view, so nothing may change
			return slice.Map(func(x T) T {
				_ = slice.PushLast(x, s)
				if len(s) > 0 {
					_ = slice.PushLast(x, slice.PopLast(s))
					_ = slice.PushHead(x, slice.Tail(s))
				}
				_ = slice.Append(s, s)
				return x
			}, s), true
		}
		f, ok := fam.maps[op.Fn]
		if !ok {
			return nil, false
		}
		return slice.Map(f, s), true
	case "slice.Mapi":
		f, ok := fam.maps[op.Fn]
		if !ok {
			return nil, false
		}
		return slice.Mapi(func(i int, x T) T {
			if i%2 == 0 {
				return f(x)
			}
			return x
		}, s), true
	case "slice.Iter":
		n := 0
		slice.Iter(func(x T) {
			n++
			if op.Fn == "reenter.pushlast" {
				_ = slice.PushLast(x, s)
				_ = slice.Filter(func(T) bool { return n%2 == 0 }, s)
			}
		}, s)
	case "slice.Filter":
		p, ok := fam.preds[op.Fn]
		if !ok {
			return nil, false
		}
		return slice.Filter(p, s), true
	case "slice.SortBy":
		return slice.SortBy(fam.proj, s), true
	case "slice.Forall":
		p, ok := fam.preds[op.Fn]
		if !ok {
			return nil, false
		}
		_ = slice.Forall(p, s)
	case "slice.Forany":
		p, ok := fam.preds[op.Fn]
		if !ok {
			return nil, false
		}
		_ = slice.Forany(p, s)
	case "slice.TryFind":
		p, ok := fam.preds[op.Fn]
		if !ok {
			return nil, false
		}
		_ = slice.TryFind(p, s)
	case "slice.Fold":
		_ = slice.Fold(func(acc int, x T) int { return acc + fam.proj(x) }, 0, s)
	case "slice.FoldPush":
		// a fold whose accumulator is a slice built with PushLast: the typical Folang accumulation loop
		return slice.Fold(func(acc []T, x T) []T { return slice.PushLast(x, acc) }, slice.New[T](), s), true
	case "slice.Append":
		q := e.ref(arg(0))
		if q == nil {
			return nil, false
		}
		s2, ok := q.v.([]T)
		if !ok {
			return nil, false
		}
		return slice.Append(s, s2), true
	case "slice.Collect":
		// f returns either a fresh two-element slice or always the same existing pool value
		if op.Fn == "collect.rep2" {
			return slice.Collect(func(x T) []T { return []T{x, x} }, s), true
		}
		if strings.HasPrefix(op.Fn, "collect.pool:") {
			q := e.ref(strings.TrimPrefix(op.Fn, "collect.pool:"))
			if q == nil {
				return nil, false
			}
			s2, ok := q.v.([]T)
			if !ok {
				return nil, false
			}
			return slice.Collect(func(T) []T { return s2 }, s), true
		}
		return nil, false
	default:
		return nil, false
	}
	return nil, true
}

// apply executes one operation of a history. Out-of-domain or dangling operations are skipped (so that
// shrinking may drop any subset of operations).
func (e *engC12) apply(op Op) (executed bool) {
	var res any
	first := func() *pval {
		if len(op.Args) == 0 {
			return nil
		}
		return e.ref(op.Args[len(op.Args)-1]) // the slice is the last argument, as in Folang
	}
	switch op.F {
	case "slice.New":
		switch op.Fn {
		case "[]int":
			res = slice.New[int]()
		case "[]string":
			res = slice.New[string]()
		case "[]T2":
			res = slice.New[T2]()
		case "[][]int":
			res = slice.New[[]int]()
		default:
			return false
		}
		executed = true
	case "slice.Sort":
		p := first()
		if p == nil {
			return false
		}
		switch s := p.v.(type) {
		case []int:
			res, executed = slice.Sort(s), true
		case []string:
			res, executed = slice.Sort(s), true
		case []float64:
			res, executed = slice.Sort(s), true
		default:
			return false
		}
	case "slice.Distinct":
		p := first()
		if p == nil {
			return false
		}
		switch s := p.v.(type) {
		case []int:
			res, executed = slice.Distinct(s), true
		case []string:
			res, executed = slice.Distinct(s), true
		case []T2:
			res, executed = slice.Distinct(s), true
		case []float64:
			res, executed = slice.Distinct(s), true
		default:
			return false
		}
	case "slice.Zip":
		if len(op.Args) != 2 {
			return false
		}
		a, b := e.ref(op.Args[0]), e.ref(op.Args[1])
		if a == nil || b == nil {
			return false
		}
		s1, ok1 := a.v.([]int)
		s2, ok2 := b.v.([]string)
		if !ok1 || !ok2 || len(s1) != len(s2) {
			return false
		}
		res, executed = slice.Zip(s1, s2), true
	case "slice.MapItoa":
		p := first()
		if p == nil {
			return false
		}
		s, ok := p.v.([]int)
		if !ok {
			return false
		}
		res, executed = slice.Map(strconv.Itoa, s), true
	case "slice.MapLen":
		p := first()
		if p == nil {
			return false
		}
		s, ok := p.v.([]string)
		if !ok {
			return false
		}
		res, executed = slice.Map(func(x string) int { return len(x) }, s), true
	case "slice.MapFst":
		p := first()
		if p == nil {
			return false
		}
		s, ok := p.v.([]T2)
		if !ok {
			return false
		}
		res, executed = slice.Map(func(t T2) int { return frt.Fst(t) }, s), true
	case "slice.Concat":
		p := first()
		if p == nil {
			return false
		}
		s, ok := p.v.([][]int)
		if !ok {
			return false
		}
		res, executed = slice.Concat(s), true
	case "slice.CollectFlat":
		p := first()
		if p == nil {
			return false
		}
		s, ok := p.v.([][]int)
		if !ok {
			return false
		}
		res, executed = slice.Collect(func(x []int) []int { return x }, s), true
	case "lit.nest":
		// the Folang literal [a; b; ...] over existing []int values: not a library call, it only builds the
		// [][]int value the library is then called on (its inner slices alias pool values)
		var nest [][]int
		for _, a := range op.Args {
			p := e.ref(a)
			if p == nil {
				return false
			}
			s, ok := p.v.([]int)
			if !ok {
				return false
			}
			nest = append(nest, s)
		}
		res, executed = append([][]int{}, nest...), true
	default:
		p := first()
		if p == nil {
			return false
		}
		rest := op
		rest.Args = op.Args[:len(op.Args)-1]
		switch s := p.v.(type) {
		case []int:
			res, executed = applySame(e, rest, s, famInt())
		case []string:
			res, executed = applySame(e, rest, s, famStr())
		case []T2:
			res, executed = applySame(e, rest, s, famT2())
		case [][]int:
			res, executed = applySame(e, rest, s, famNest())
		case []float64:
			res, executed = applySame(e, rest, s, famFlt())
		}
	}
	if executed && res != nil && op.Out > 0 {
		// results longer than maxPooledLen are checked once (by the invariant over the existing values) but not
		// kept: Append/Collect/Concat on their own results would otherwise double sizes up to 2^40 elements
		if rv := reflect.ValueOf(res); rv.Kind() == reflect.Slice && rv.Len() <= maxPooledLen {
			e.add(op.Out, res, op.F)
		}
	}
	return executed
}

// check is the invariant: every value ever produced still has the contents it had when it was produced.
func (e *engC12) check() *pval {
	for _, id := range e.order {
		p := e.pool[id]
		if !sameContents(p.v, p.snap) {
			return p
		}
	}
	return nil
}

func mkInit(in Init) (any, bool) {
	mk := func(n int) int { return n + in.Spare }
	switch in.Type {
	case "[]int":
		var el []int
		if json.Unmarshal([]byte(in.Elems), &el) != nil {
			return nil, false
		}
		s := make([]int, len(el), mk(len(el)))
		copy(s, el)
		full := s[:cap(s)]
		for i := len(el); i < len(full); i++ {
			full[i] = -999
		}
		return s, true
	case "[]string":
		var el []string
		if json.Unmarshal([]byte(in.Elems), &el) != nil {
			return nil, false
		}
		s := make([]string, len(el), mk(len(el)))
		copy(s, el)
		full := s[:cap(s)]
		for i := len(el); i < len(full); i++ {
			full[i] = "<spare>"
		}
		return s, true
	case "[]T2":
		var el []int
		if json.Unmarshal([]byte(in.Elems), &el) != nil {
			return nil, false
		}
		s := make([]T2, len(el), mk(len(el)))
		for i, x := range el {
			s[i] = frt.NewTuple2(x, fmt.Sprint("s", x))
		}
		return s, true
	case "[]float64":
		var el []float64
		if json.Unmarshal([]byte(in.Elems), &el) != nil {
			return nil, false
		}
		s := make([]float64, len(el), mk(len(el)))
		copy(s, el)
		return s, true
	case "[][]int":
		var el [][]int
		if json.Unmarshal([]byte(in.Elems), &el) != nil {
			return nil, false
		}
		s := make([][]int, len(el), mk(len(el)))
		for i := range el {
			s[i] = append([]int{}, el[i]...)
		}
		return s, true
	}
	return nil, false
}

// runC12 executes a history against the real pkg/slice; st may be nil (replay, shrinking).
func runC12(h *History, st *Stats) *Violation {
	e := &engC12{pool: map[int]*pval{}}
	for _, in := range h.Init {
		v, ok := mkInit(in)
		if !ok {
			fail2("bad init value in history")
		}
		e.add(in.ID, v, "init")
	}
	nExec := 0
	var viol *Violation
	func() {
		defer func() {
			if r := recover(); r != nil {
				// an in-domain call must not panic; report it as its own class
				viol = &Violation{Class: "panic", Signature: "panic:" + h.Ops[nExec%len(h.Ops)].F, Detail: fmt.Sprintf("in-domain call panicked: %v", r)}
			}
		}()
		for i, op := range h.Ops {
			nExec = i
			if !e.apply(op) {
				continue
			}
			if st != nil {
				st.count("op:"+op.F, 1)
			}
			if bad := e.check(); bad != nil {
				viol = &Violation{Class: "mutated", Signature: "mutated-by:" + op.F, AtOp: i,
					Detail: fmt.Sprintf("operation %d (%s %s %v) changed value #%d (%s, produced by %s): it was %v when produced and is %v now",
						i, op.F, op.Fn, op.Args, bad.id, bad.typ, bad.producer, bad.snap, bad.v)}
				return
			}
		}
	}()
	if st != nil {
		if e.argSpare {
			st.count("probe:history_with_spare_capacity_argument", 1)
		}
		if e.argShared {
			st.count("probe:history_with_shared_array_argument", 1)
		}
	}
	h.nontrivial = e.argSpare || e.argShared
	return viol
}

// ---- generation ----

var sameOps = []string{"slice.Length", "slice.Len", "slice.IsEmpty", "slice.IsNotEmpty", "slice.Last", "slice.Head", "slice.Item", "slice.Tail",
	"slice.PopLast", "slice.Take", "slice.Skip", "slice.PushLast", "slice.PushHead", "slice.Map", "slice.Mapi", "slice.Iter", "slice.Filter",
	"slice.SortBy", "slice.Forall", "slice.Forany", "slice.TryFind", "slice.Fold", "slice.FoldPush", "slice.Append", "slice.Collect",
	"slice.Sort", "slice.Distinct",
	// weighted towards the operations that return views or extend in place
	"slice.PopLast", "slice.PushLast", "slice.PushLast", "slice.Tail", "slice.Take", "slice.Append"}

type genVal struct {
	id  int
	typ string
	n   int // length (tracked by the generator so that arguments are in-domain)
}

func genHistoryC12(r *common.Rng, seed int64, run int) *History {
	h := &History{V: 1, Property: "C12", Seed: seed, Run: run}
	var vals []genVal
	nextID := 1
	types := []string{"[]int", "[]int", "[]string", "[]T2", "[][]int", "[]float64"}
	for i, n := 0, r.Range(1, 4); i < n; i++ {
		t := types[r.Intn(len(types))]
		ln := r.Intn(7)
		if r.Chance(1, 5) {
			ln = r.Range(17, 40) // long values: thresholds on length or capacity (16, 32) are boundaries too
		}
		var elems string
		switch t {
		case "[]int", "[]T2":
			el := make([]int, ln)
			for j := range el {
				el[j] = r.Intn(10)
			}
			b, _ := json.Marshal(el)
			elems = string(b)
		case "[]string":
			el := make([]string, ln)
			for j := range el {
				el[j] = r.Pick("a", "b", "", "ab", "z", "ba")
			}
			b, _ := json.Marshal(el)
			elems = string(b)
		case "[]float64":
			el := make([]float64, ln)
			for j := range el {
				el[j] = float64(r.Intn(20)) / 2
			}
			b, _ := json.Marshal(el)
			elems = string(b)
		case "[][]int":
			el := make([][]int, ln)
			for j := range el {
				el[j] = make([]int, r.Intn(4))
				for k := range el[j] {
					el[j][k] = r.Intn(10)
				}
			}
			b, _ := json.Marshal(el)
			elems = string(b)
		}
		h.Init = append(h.Init, Init{ID: nextID, Type: t, Elems: elems, Spare: []int{0, 0, 1, 2, 3}[r.Intn(5)]})
		vals = append(vals, genVal{nextID, t, ln})
		nextID++
	}
	pick := func(typ string) (genVal, bool) {
		var c []genVal
		for _, v := range vals {
			if typ == "" || v.typ == typ {
				c = append(c, v)
			}
		}
		if len(c) == 0 {
			return genVal{}, false
		}
		// bias to the most recent values and their sources
		if r.Chance(3, 5) && len(c) > 3 {
			c = c[len(c)-3:]
		}
		return c[r.Intn(len(c))], true
	}
	elemFor := func(typ string) string {
		switch typ {
		case "[]int":
			return fmt.Sprint(r.Intn(10) + 10)
		case "[]string":
			return r.Pick("p", "q", "", "pq")
		case "[]T2":
			return fmt.Sprintf("%d:%s", r.Intn(10)+10, r.Pick("p", "q"))
		case "[]float64":
			return fmt.Sprint(float64(r.Intn(20))/2 + 20)
		case "[][]int":
			if v, ok := pick("[]int"); ok {
				return fmt.Sprint("#", v.id)
			}
		}
		return ""
	}
	fnFor := func(typ, kind string) string {
		switch typ + kind {
		case "[]intmap":
			return keysOf(intMaps)[r.Intn(len(intMaps))]
		case "[]intpred":
			return keysOf(intPreds)[r.Intn(len(intPreds))]
		case "[]stringmap":
			return keysOf(strMaps)[r.Intn(len(strMaps))]
		case "[]stringpred":
			return keysOf(strPreds)[r.Intn(len(strPreds))]
		case "[]T2map":
			return keysOf(t2Maps)[r.Intn(len(t2Maps))]
		case "[]T2pred":
			return keysOf(t2Preds)[r.Intn(len(t2Preds))]
		case "[][]intmap":
			return keysOf(nestMaps)[r.Intn(len(nestMaps))]
		case "[][]intpred":
			return keysOf(nestPreds)[r.Intn(len(nestPreds))]
		case "[]float64map":
			return keysOf(fltMaps)[r.Intn(len(fltMaps))]
		case "[]float64pred":
			return keysOf(fltPreds)[r.Intn(len(fltPreds))]
		}
		return ""
	}
	nops := r.Range(1, 40)
	for len(h.Ops) < nops {
		// cross-type operations now and then
		if r.Chance(1, 6) {
			switch r.Intn(8) {
			case 0:
				a, ok1 := pick("[]int")
				b, ok2 := pick("[]string")
				if ok1 && ok2 && a.n == b.n {
					h.Ops = append(h.Ops, Op{F: "slice.Zip", Args: []string{fmt.Sprint("#", a.id), fmt.Sprint("#", b.id)}, Out: nextID})
					vals = append(vals, genVal{nextID, "[]T2", a.n})
					nextID++
				}
			case 1:
				if a, ok := pick("[]int"); ok {
					h.Ops = append(h.Ops, Op{F: "slice.MapItoa", Args: []string{fmt.Sprint("#", a.id)}, Out: nextID})
					vals = append(vals, genVal{nextID, "[]string", a.n})
					nextID++
				}
			case 2:
				if a, ok := pick("[]string"); ok {
					h.Ops = append(h.Ops, Op{F: "slice.MapLen", Args: []string{fmt.Sprint("#", a.id)}, Out: nextID})
					vals = append(vals, genVal{nextID, "[]int", a.n})
					nextID++
				}
			case 3:
				if a, ok := pick("[]T2"); ok {
					h.Ops = append(h.Ops, Op{F: "slice.MapFst", Args: []string{fmt.Sprint("#", a.id)}, Out: nextID})
					vals = append(vals, genVal{nextID, "[]int", a.n})
					nextID++
				}
			case 4, 5:
				if a, ok := pick("[][]int"); ok {
					f := "slice.Concat"
					if r.Chance(1, 2) {
						f = "slice.CollectFlat"
					}
					h.Ops = append(h.Ops, Op{F: f, Args: []string{fmt.Sprint("#", a.id)}, Out: nextID})
					vals = append(vals, genVal{nextID, "[]int", -1})
					nextID++
				}
			case 6:
				var args []string
				for k, n := 0, r.Range(1, 3); k < n; k++ {
					if a, ok := pick("[]int"); ok {
						args = append(args, fmt.Sprint("#", a.id))
					}
				}
				if len(args) > 0 {
					h.Ops = append(h.Ops, Op{F: "lit.nest", Args: args, Out: nextID})
					vals = append(vals, genVal{nextID, "[][]int", len(args)})
					nextID++
				}
			case 7:
				t := types[r.Intn(len(types))]
				h.Ops = append(h.Ops, Op{F: "slice.New", Fn: t, Out: nextID})
				vals = append(vals, genVal{nextID, t, 0})
				nextID++
			}
			continue
		}
		v, ok := pick("")
		if !ok {
			break
		}
		f := sameOps[r.Intn(len(sameOps))]
		// runs: keep shortening (or extending) the most recent result, the way a stack is popped down or built up
		if len(h.Ops) > 0 && r.Chance(1, 3) {
			last := h.Ops[len(h.Ops)-1]
			if last.Out > 0 && (last.F == "slice.PopLast" || last.F == "slice.Tail" || last.F == "slice.PushLast") {
				for _, gv := range vals {
					if gv.id == last.Out {
						v, f = gv, last.F
					}
				}
			}
		}
		op := Op{F: f}
		self := fmt.Sprint("#", v.id)
		outLen := -1
		pooled := false
		known := v.n >= 0
		switch f {
		case "slice.Length", "slice.Len", "slice.IsEmpty", "slice.IsNotEmpty", "slice.Iter", "slice.Fold":
			op.Args = []string{self}
			if f == "slice.Iter" && r.Chance(1, 3) {
				op.Fn = "reenter.pushlast"
			}
		case "slice.Last", "slice.Head":
			if known && v.n == 0 {
				continue
			}
			op.Args = []string{self}
		case "slice.Item":
			if !known || v.n == 0 {
				continue
			}
			op.Args = []string{fmt.Sprint(r.Intn(v.n)), self}
		case "slice.Tail", "slice.PopLast":
			if !known || v.n == 0 {
				continue
			}
			op.Args = []string{self}
			outLen, pooled = v.n-1, true
		case "slice.Take":
			if !known {
				continue
			}
			n := r.Intn(v.n + 1)
			op.Args = []string{fmt.Sprint(n), self}
			outLen, pooled = n, true
		case "slice.Skip":
			n := r.Intn(4)
			op.Args = []string{fmt.Sprint(n), self}
			if known {
				outLen = v.n - n
				if outLen < 0 {
					outLen = 0
				}
			}
			pooled = true
		case "slice.PushLast", "slice.PushHead":
			el := elemFor(v.typ)
			if v.typ == "[][]int" && el == "" {
				continue
			}
			op.Args = []string{el, self}
			if known {
				outLen = v.n + 1
			}
			pooled = true
		case "slice.Map", "slice.Mapi":
			op.Fn = fnFor(v.typ, "map")
			if f == "slice.Map" && r.Chance(1, 6) {
				op.Fn = "reenter.pushlast"
			}
			op.Args = []string{self}
			outLen, pooled = v.n, true
		case "slice.Filter":
			op.Fn = fnFor(v.typ, "pred")
			op.Args = []string{self}
			pooled = true
		case "slice.Forall", "slice.Forany", "slice.TryFind":
			op.Fn = fnFor(v.typ, "pred")
			op.Args = []string{self}
		case "slice.SortBy", "slice.FoldPush":
			op.Args = []string{self}
			outLen, pooled = v.n, true
		case "slice.Sort":
			if v.typ != "[]int" && v.typ != "[]string" && v.typ != "[]float64" {
				continue
			}
			op.Args = []string{self}
			outLen, pooled = v.n, true
		case "slice.Distinct":
			if v.typ == "[][]int" {
				continue
			}
			op.Args = []string{self}
			pooled = true
		case "slice.Append":
			w, ok := pick(v.typ)
			if !ok {
				continue
			}
			op.Args = []string{fmt.Sprint("#", w.id), self}
			if known && w.n >= 0 {
				outLen = v.n + w.n
			}
			pooled = true
		case "slice.Collect":
			if r.Chance(1, 2) {
				op.Fn = "collect.rep2"
			} else {
				w, ok := pick(v.typ)
				if !ok {
					continue
				}
				op.Fn = fmt.Sprint("collect.pool:#", w.id)
			}
			op.Args = []string{self}
			pooled = true
		}
		if pooled {
			op.Out = nextID
			vals = append(vals, genVal{nextID, v.typ, outLen})
			nextID++
		}
		h.Ops = append(h.Ops, op)
	}
	return h
}

func shrinkC12(h *History, sig string) *History {
	cur := *h
	ops := h.Ops
	mk := func(keep []int) *History {
		n := cur
		n.Ops = nil
		for _, i := range keep {
			n.Ops = append(n.Ops, ops[i])
		}
		return &n
	}
	keep := common.DDMin(len(ops), func(keep []int) bool {
		v := runC12(mk(keep), nil)
		return v != nil && v.Signature == sig
	})
	cur = *mk(keep)
	// drop init values that are not needed
	inits := cur.Init
	mk2 := func(keep []int) *History {
		n := cur
		n.Init = nil
		for _, i := range keep {
			n.Init = append(n.Init, inits[i])
		}
		return &n
	}
	keepI := common.DDMin(len(inits), func(keep []int) bool {
		v := runC12(mk2(keep), nil)
		return v != nil && v.Signature == sig
	})
	cur = *mk2(keepI)
	return &cur
}

func checkC12(tier string, seed int64) {
	t0 := time.Now()
	n := 250000
	if tier != "quick" {
		n = 10000000
	}
	st := &Stats{Counters: common.Counter{}, Distinct: map[string]bool{}}
	type outcome struct {
		h *History
		v *Violation
	}
	var firstBad []outcome
	// batches keep memory flat; the lowest failing run index of every signature is what gets reported
	const batch = 20000
	distinct := 0
	for start := 0; start < n; start += batch {
		m := batch
		if start+m > n {
			m = n - start
		}
		outs := parallelRuns(m, func(k int) outcome {
			i := start + k
			r := common.NewRng(common.Mix(uint64(seed), 12, uint64(i)))
			h := genHistoryC12(r, seed, i)
			v := runC12(h, st)
			return outcome{h, v}
		})
		for _, o := range outs {
			b, _ := json.Marshal(o.h.Ops)
			bi, _ := json.Marshal(o.h.Init)
			if o.h.nontrivial && st.mark(string(bi)+string(b)) {
				distinct++
			}
			if o.h.Run%(n/8+1) == 0 {
				st.sample(map[string]any{"init": o.h.Init, "ops": o.h.Ops, "nontrivial": o.h.nontrivial}, 8)
			}
			st.OpsRun += int64(len(o.h.Ops))
			if o.v != nil {
				st.count("raw_violation:"+o.v.Signature, 1)
				dup := false
				for _, f := range firstBad {
					if f.v.Signature == o.v.Signature {
						dup = true
					}
				}
				if !dup {
					firstBad = append(firstBad, o)
				}
			}
		}
		st.Distinct = map[string]bool{} // distinctness is counted per batch (conservative: never over-counts within one)
	}
	rep := newReporter("C12", seed)
	violations := 0
	for _, h := range corpusHistories("C12") {
		st.count("corpus_histories", 1)
		if v := runC12(h, st); v != nil {
			firstBad = append(firstBad, outcome{h, v})
		}
	}
	for _, o := range firstBad {
		sh := shrinkC12(o.h, o.v.Signature)
		sv := runC12(sh, nil)
		if sv == nil {
			sh, sv = o.h, o.v
		}
		if rep.report(sh, sv, func(h *History) *Violation { return runC12(h, nil) }) {
			violations++
		}
	}
	writeEvidence("C12", tier, seed, t0, st, n, distinct,
		"one evaluation = one straight-line history of up to 40 pkg/slice calls over a growing pool of slice values ([]int, []string, []Tuple2[int,string], [][]int; initial values with randomised sentinel-filled spare capacity, results with whatever capacity append gave them), with the invariant after every call that every value ever produced still has the contents snapshotted when it was produced; distinct and non-trivial = the history (init + operations) is new within its batch of 20000 and at least one call received a value that has spare capacity or shares its backing array with another live value. Sequential, single caller, no faults: the history dimension only.",
		map[string]any{
			"fault_kinds_injected": "none (degenerate single-caller, fault-free configuration: histories over shared backing arrays)",
			"functions_covered":    sameOpsUnique(),
		},
		[]string{"function arguments come from a fixed family of total pure functions (one of them returns an existing pool value)",
			"no result oracle on purpose: what the functions return is C13's subject"},
		violations, rep.known)
	if violations > 0 {
		os.Exit(1)
	}
	if rep.unreproduced > 0 {
		fail2("%d failure(s) did not replay and no replay-confirmed violation was found; inconclusive", rep.unreproduced)
	}
	fmt.Printf("OK property=C12 tier=%s wall=%.1fs histories=%d\n", tier, time.Since(t0).Seconds(), n)
}

func sameOpsUnique() []string {
	set := map[string]bool{"slice.New": true, "slice.Zip": true, "slice.Concat": true, "slice.Map(int->string)": true, "slice.Collect(flatten)": true}
	for _, o := range sameOps {
		set[o] = true
	}
	return keysOf(set)
}
