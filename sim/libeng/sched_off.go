//go:build !verif

package main

// Shipped build of pkg/dict: enumeration order is Go's own map randomisation; only verdicts replay
// (the oracle is permutation-invariant).
const schedAvailable = false

func installSched(h *History, e *engC14) {}

func removeSched() {}
