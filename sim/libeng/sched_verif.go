//go:build verif

package main

import (
	"encoding/json"
	"fmt"

	"github.com/karino2/folang/pkg/dict"
)

// With the verif build of pkg/dict the enumeration order of every Keys/Values/KVs call is decided by the
// history's schedule (EnumSched installed in-process), so the whole trace replays exactly.
const schedAvailable = true

func installSched(h *History, e *engC14) {
	var s dict.VerifSched
	if len(h.Sched) > 0 {
		if err := json.Unmarshal(h.Sched, &s); err != nil {
			fail2("bad schedule in history: %v", err)
		}
	}
	dict.VerifInstall(&s, func(ev dict.VerifEnumEvent) {
		e.enumLog = append(e.enumLog, fmt.Sprintf("%s/%d/%v", ev.Fn, ev.N, ev.Perm))
	})
}

func removeSched() { dict.VerifInstall(nil, nil) }
