// libeng is the in-process library history engine (DESIGN 4.3) for C12 and C14. It is compiled by the
// check against the scratch copy of /repo's pkg/* (the code under test), never against a stale build.
//
// usage: libeng <C12|C14> <quick|thorough|replay> <seed> <verif dir> [replay file]
package main

import (
	"encoding/json"
	"fmt"
	"os"
	"os/exec"
	"path/filepath"
	"runtime"
	"strconv"
	"strings"
	"sync"
	"sync/atomic"
	"time"

	"fosim/common"
)

type Op struct {
	F    string   `json:"f"`
	Fn   string   `json:"fn,omitempty"`
	Args []string `json:"args"`          // "#k" pool reference, or an immediate written as text
	Out  int      `json:"out,omitempty"` // pool id of the result (0: no pooled result)
}

type Init struct {
	ID    int    `json:"id"`
	Type  string `json:"type"`
	Elems string `json:"elems"` // JSON text of the elements
	Spare int    `json:"spare"`
}

type History struct {
	V        int             `json:"v"`
	Property string          `json:"property"`
	Seed     int64           `json:"seed"`
	Run      int             `json:"run"`
	Config   string          `json:"config,omitempty"` // C14: "sched" (verif build, EnumSched) or "shipped"
	Sched    json.RawMessage `json:"sched,omitempty"`
	Init     []Init          `json:"init"`
	Ops      []Op            `json:"ops"`
	Expect   *Expect         `json:"expect,omitempty"`
	// Isolated: the finding replays only when the history runs alone in a fresh single-threaded process without
	// garbage collection (library state kept between calls, e.g. a sync.Pool)
	Isolated bool `json:"isolated,omitempty"`

	nontrivial bool
	trace      string
}

type Expect struct {
	Class     string `json:"class"`
	Signature string `json:"signature"`
	Detail    string `json:"detail,omitempty"`
}

type Violation struct {
	Class     string
	Signature string
	Detail    string
	AtOp      int
}

type Stats struct {
	mu        sync.Mutex
	Counters  common.Counter
	Distinct  map[string]bool
	Samples   []any
	Histories int64
	OpsRun    int64
}

func (s *Stats) count(k string, n int) {
	s.mu.Lock()
	s.Counters.Add(k, n)
	s.mu.Unlock()
}
func (s *Stats) mark(k string) bool {
	s.mu.Lock()
	defer s.mu.Unlock()
	if s.Distinct[k] {
		return false
	}
	s.Distinct[k] = true
	return true
}
func (s *Stats) sample(x any, max int) {
	s.mu.Lock()
	if len(s.Samples) < max {
		s.Samples = append(s.Samples, x)
	}
	s.mu.Unlock()
}

func fail2(format string, a ...any) {
	fmt.Fprintf(os.Stderr, "HARNESS-ERROR: "+format+"\n", a...)
	os.Exit(2)
}

var verifDir string

func main() {
	if len(os.Args) < 5 {
		fail2("usage: libeng <C12|C14> <quick|thorough|replay> <seed> <verif dir> [replay file]")
	}
	prop, tier := os.Args[1], os.Args[2]
	seed, err := strconv.ParseInt(os.Args[3], 10, 64)
	if err != nil {
		fail2("bad seed %q", os.Args[3])
	}
	verifDir = os.Args[4]
	if tier == "replay" {
		if len(os.Args) < 6 {
			fail2("replay needs a file")
		}
		replay(prop, os.Args[5])
		return
	}
	switch prop {
	case "C12":
		checkC12(tier, seed)
	case "C14":
		checkC14(tier, seed)
	default:
		fail2("libeng serves C12 and C14 only")
	}
}

func loadHistory(path string) *History {
	b, err := os.ReadFile(path)
	if err != nil {
		fail2("replay: %v", err)
	}
	var h History
	if err := json.Unmarshal(b, &h); err != nil {
		fail2("replay: %v", err)
	}
	return &h
}

func saveHistory(path string, h *History) {
	os.MkdirAll(filepath.Dir(path), 0755)
	b, _ := json.MarshalIndent(h, "", " ")
	if err := os.WriteFile(path, append(b, '\n'), 0644); err != nil {
		fail2("write replay: %v", err)
	}
}

// isolatedReproduces runs this binary again on the history alone: GOMAXPROCS=1, GOGC=off.
func isolatedReproduces(h *History, sig string) bool {
	if os.Getenv("LIBENG_ISOLATED") != "" {
		return false
	}
	dir, err := os.MkdirTemp("", "libeng-iso-")
	if err != nil {
		return false
	}
	defer os.RemoveAll(dir)
	path := filepath.Join(dir, "h.json")
	c := *h
	c.Expect = &Expect{Signature: sig}
	saveHistory(path, &c)
	exe, err := os.Executable()
	if err != nil {
		return false
	}
	for i := 0; i < 2; i++ {
		cmd := exec.Command(exe, h.Property, "replay", fmt.Sprint(h.Seed), verifDir, path)
		cmd.Env = append(os.Environ(), "GOMAXPROCS=1", "GOGC=off", "LIBENG_ISOLATED=1")
		out, _ := cmd.CombinedOutput()
		if !strings.Contains(string(out), "REPRODUCED") || strings.Contains(string(out), "NOT REPRODUCED") {
			return false
		}
	}
	return true
}

func replay(prop, path string) {
	h := loadHistory(path)
	if h.Isolated && os.Getenv("LIBENG_ISOLATED") == "" {
		// this finding needs the history to run alone, single-threaded, without garbage collection
		exe, _ := os.Executable()
		cmd := exec.Command(exe, os.Args[1:]...)
		cmd.Env = append(os.Environ(), "GOMAXPROCS=1", "GOGC=off", "LIBENG_ISOLATED=1")
		cmd.Stdout, cmd.Stderr = os.Stdout, os.Stderr
		if err := cmd.Run(); err != nil {
			if ee, ok := err.(*exec.ExitError); ok {
				os.Exit(ee.ExitCode())
			}
			fail2("isolated replay: %v", err)
		}
		os.Exit(0)
	}
	var v *Violation
	switch h.Property {
	case "C12":
		v = runC12(h, nil)
	case "C14":
		if h.Config == "sched" && !schedAvailable {
			fmt.Println("SKIP: this history needs the verif build of pkg/dict")
			os.Exit(3)
		}
		if h.Config == "shipped" && schedAvailable {
			fmt.Println("SKIP: this history needs the shipped (tag-off) build of pkg/dict")
			os.Exit(3)
		}
		v = runC14(h, nil)
	default:
		fail2("replay: property %q", h.Property)
	}
	if v == nil {
		fmt.Printf("NOT REPRODUCED: the property holds on this history (property=%s)\n", h.Property)
		os.Exit(0)
	}
	fmt.Printf("violation class=%s signature=%s\n%s\n", v.Class, v.Signature, v.Detail)
	if h.Expect == nil || h.Expect.Signature == v.Signature {
		fmt.Println("REPRODUCED")
	} else {
		fmt.Printf("note: recorded signature was %s\n", h.Expect.Signature)
	}
	fmt.Printf("VIOLATION property=%s replay=%s\n", h.Property, path)
	os.Exit(1)
}

// parallelRuns evaluates fn(0..n-1) on all cores; results by index.
func parallelRuns[T any](n int, fn func(i int) T) []T {
	res := make([]T, n)
	var next int64 = -1
	var wg sync.WaitGroup
	for w := 0; w < runtime.NumCPU(); w++ {
		wg.Add(1)
		go func() {
			defer wg.Done()
			for {
				i := atomic.AddInt64(&next, 1)
				if i >= int64(n) {
					return
				}
				res[i] = fn(int(i))
			}
		}()
	}
	wg.Wait()
	return res
}

type reporter struct {
	prop     string
	seed     int64
	findings []common.Finding
	known    []string
	seenSig  map[string]bool

	unreproduced int
}

func newReporter(prop string, seed int64) *reporter {
	fs, err := common.LoadFindings(filepath.Join(verifDir, "known_findings.json"))
	if err != nil {
		fail2("known_findings.json: %v", err)
	}
	return &reporter{prop: prop, seed: seed, findings: fs, seenSig: map[string]bool{}}
}

// report prints KNOWN-FINDING or VIOLATION for a minimised, re-confirmed history. True for a new violation.
func (r *reporter) report(h *History, v *Violation, rerun func(*History) *Violation) bool {
	if r.seenSig[v.Signature] {
		return false
	}
	r.seenSig[v.Signature] = true
	for i := 0; i < 2; i++ {
		v2 := rerun(h)
		if v2 == nil || v2.Signature != v.Signature {
			// State the library keeps between calls (a pool, a package variable) is shared by the histories that run
			// side by side in this process. Try the history alone: a fresh process, one thread, no garbage collection -
			// there such state is a function of the history only.
			if isolatedReproduces(h, v.Signature) {
				h.Isolated = true
				break
			}
			// never reported as a violation; makes the run inconclusive unless a confirmed violation exists too
			fmt.Fprintf(os.Stderr, "HARNESS-WARNING: replay of %s did not reproduce (%s)\n", r.prop, v.Signature)
			r.unreproduced++
			return false
		}
	}
	h.Expect = &Expect{Class: v.Class, Signature: v.Signature, Detail: v.Detail}
	if k := common.KnownFor(r.findings, r.prop, v.Signature); k != nil {
		msg := fmt.Sprintf("KNOWN-FINDING: property=%s %s [%s]", r.prop, k.What, v.Signature)
		r.known = append(r.known, msg)
		fmt.Println(msg)
		return false
	}
	path := filepath.Join(verifDir, "replays", fmt.Sprintf("%s-%d-%d.json", r.prop, r.seed, h.Run))
	saveHistory(path, h)
	fmt.Printf("violation class=%s signature=%s\n%s\n", v.Class, v.Signature, v.Detail)
	fmt.Printf("VIOLATION property=%s replay=%s\n", r.prop, path)
	return true
}

func writeEvidence(prop, tier string, seed int64, t0 time.Time, st *Stats, evaluations, distinct int, rule string, extra map[string]any, assumptions []string, violations int, known []string) {
	wall := time.Since(t0).Seconds()
	cov := map[string]any{
		"evaluations":         evaluations,
		"distinct_nontrivial": distinct,
		"rule":                rule,
		"samples":             st.Samples,
		"operations_executed": st.OpsRun,
		"histories_per_hour":  int(float64(evaluations) / wall * 3600),
		"counters":            st.Counters,
		"known_findings_seen": known,
		"real_vs_stub": map[string]string{
			"real":    "pkg/slice, pkg/dict, pkg/buf, pkg/strings, pkg/frt compiled from the working tree",
			"stub":    "nothing for C12; C14 'sched' configuration: enumeration order of dict.Keys/Values/KVs decided by the verif seam",
			"outside": "Go runtime (append growth policy, map implementation)",
		},
	}
	for k, v := range extra {
		cov[k] = v
	}
	if st.Samples == nil {
		cov["samples"] = []any{}
	}
	ev := &common.Evidence{PropertyID: prop, Tier: tier, Seed: seed, Level: "exploration", Coverage: cov, Assumptions: assumptions, WallS: wall, Violations: violations}
	if err := ev.Write(filepath.Join(verifDir, "evidence", prop+".json")); err != nil {
		fail2("write evidence: %v", err)
	}
}

// corpusHistories loads the permanent corpus of a property (replays of fixed and known findings, hand-kept
// boundary histories). Every check run re-executes them: a fixed finding that comes back is a violation again.
func corpusHistories(prop string) []*History {
	dir := filepath.Join(verifDir, "corpus", map[string]string{"C12": "c12", "C14": "c14"}[prop])
	ents, _ := os.ReadDir(dir)
	var out []*History
	for _, e := range ents {
		if filepath.Ext(e.Name()) != ".json" {
			continue
		}
		h := loadHistory(filepath.Join(dir, e.Name()))
		h.Expect = nil
		h.Run = -1 - len(out)
		out = append(out, h)
	}
	return out
}
