package main

import (
	"encoding/json"
	"errors"
	"fmt"
	"os"
	"sort"
	"strconv"
	gostrings "strings"
	"time"

	"fosim/common"

	"github.com/karino2/folang/pkg/buf"
	"github.com/karino2/folang/pkg/dict"
	"github.com/karino2/folang/pkg/frt"
	fstrings "github.com/karino2/folang/pkg/strings"
)

// ---- C14: dict / buf (mutable, shared by reference: history search against a model) and the pure helpers ----

type dictObj interface {
	add(k, v string)
	contains(k string) bool
	tryFind(k string) (string, bool)
	item(k string) string
	keys() []string
	values() []string
	kvs() [][2]string
	toDictOfKVs() dictObj
	scribble() func()
}

// scribble takes the three enumerations now and returns what their holder may do with them later: overwrite
// an element and append (into spare capacity, if there is any). A Go caller owns what an enumeration returned;
// none of it may reach the dictionary, whatever was added in between.
func scribbleOn[K comparable, V any](d dict.Dict[K, V], jk K, jv V) func() {
	ks, vs, kvs := dict.Keys(d), dict.Values(d), dict.KVs(d)
	return func() {
		_ = append(ks, jk)
		_ = append(vs, jv)
		_ = append(kvs, frt.NewTuple2(jk, jv))
		if len(ks) > 0 {
			ks[0] = jk
		}
		if len(vs) > 0 {
			vs[0] = jv
		}
		if len(kvs) > 0 {
			kvs[0] = frt.NewTuple2(jk, jv)
		}
	}
}
func (x dictSI) scribble() func() { return scribbleOn(x.d, "junk-key", -12345) }
func (x dictIS) scribble() func() { return scribbleOn(x.d, -12345, "junk-value") }
func (x dictTI) scribble() func() { return scribbleOn(x.d, frt.NewTuple2("junk", "key"), -12345) }

type dictSI struct{ d dict.Dict[string, int] }
type dictIS struct{ d dict.Dict[int, string] }

func atoi(s string) int { n, _ := strconv.Atoi(s); return n }

func (x dictSI) add(k, v string)        { dict.Add(x.d, k, atoi(v)) }
func (x dictSI) contains(k string) bool { return dict.ContainsKey(x.d, k) }
func (x dictSI) tryFind(k string) (string, bool) {
	v, ok := frt.Destr2(dict.TryFind(x.d, k))
	return strconv.Itoa(v), ok
}
func (x dictSI) item(k string) string { return strconv.Itoa(dict.Item(x.d, k)) }
func (x dictSI) keys() []string       { return append([]string{}, dict.Keys(x.d)...) }
func (x dictSI) values() []string {
	var out []string
	for _, v := range dict.Values(x.d) {
		out = append(out, strconv.Itoa(v))
	}
	return out
}
func (x dictSI) kvs() [][2]string {
	var out [][2]string
	for _, kv := range dict.KVs(x.d) {
		out = append(out, [2]string{kv.E0, strconv.Itoa(kv.E1)})
	}
	return out
}
func (x dictSI) toDictOfKVs() dictObj { return dictSI{dict.ToDict(dict.KVs(x.d))} }

func (x dictIS) add(k, v string)        { dict.Add(x.d, atoi(k), v) }
func (x dictIS) contains(k string) bool { return dict.ContainsKey(x.d, atoi(k)) }
func (x dictIS) tryFind(k string) (string, bool) {
	v, ok := frt.Destr2(dict.TryFind(x.d, atoi(k)))
	return v, ok
}
func (x dictIS) item(k string) string { return dict.Item(x.d, atoi(k)) }
func (x dictIS) keys() []string {
	var out []string
	for _, k := range dict.Keys(x.d) {
		out = append(out, strconv.Itoa(k))
	}
	return out
}
func (x dictIS) values() []string { return append([]string{}, dict.Values(x.d)...) }
func (x dictIS) kvs() [][2]string {
	var out [][2]string
	for _, kv := range dict.KVs(x.d) {
		out = append(out, [2]string{strconv.Itoa(kv.E0), kv.E1})
	}
	return out
}
func (x dictIS) toDictOfKVs() dictObj { return dictIS{dict.ToDict(dict.KVs(x.d))} }

// dictTI: keys are string*string tuples (a legal Folang key type); two different keys may print identically
// ("a b","c") / ("a","b c"), so anything that identifies entries by their printed form is exposed.
type dictTI struct {
	d dict.Dict[frt.Tuple2[string, string], int]
}

func tkey(s string) frt.Tuple2[string, string] {
	a, b, _ := gostrings.Cut(s, "|")
	return frt.NewTuple2(a, b)
}
func tkeyText(k frt.Tuple2[string, string]) string { return k.E0 + "|" + k.E1 }

func (x dictTI) add(k, v string)        { dict.Add(x.d, tkey(k), atoi(v)) }
func (x dictTI) contains(k string) bool { return dict.ContainsKey(x.d, tkey(k)) }
func (x dictTI) tryFind(k string) (string, bool) {
	v, ok := frt.Destr2(dict.TryFind(x.d, tkey(k)))
	return strconv.Itoa(v), ok
}
func (x dictTI) item(k string) string { return strconv.Itoa(dict.Item(x.d, tkey(k))) }
func (x dictTI) keys() []string {
	var out []string
	for _, k := range dict.Keys(x.d) {
		out = append(out, tkeyText(k))
	}
	return out
}
func (x dictTI) values() []string {
	var out []string
	for _, v := range dict.Values(x.d) {
		out = append(out, strconv.Itoa(v))
	}
	return out
}
func (x dictTI) kvs() [][2]string {
	var out [][2]string
	for _, kv := range dict.KVs(x.d) {
		out = append(out, [2]string{tkeyText(kv.E0), strconv.Itoa(kv.E1)})
	}
	return out
}
func (x dictTI) toDictOfKVs() dictObj { return dictTI{dict.ToDict(dict.KVs(x.d))} }

type dictVal struct {
	kind  string // sI or iS
	obj   dictObj
	model map[string]string // shared by aliases, like the dictionary itself
	stale func()            // what the holder of the previous enumeration results does to them at the next look
}

type bufVal struct {
	b     buf.Buffer
	model *gostrings.Builder
}

type engC14 struct {
	dicts   map[int]*dictVal
	bufs    map[int]*bufVal
	order   []int
	probes  map[string]bool
	enumLog []string // sched configuration: permutations applied (for the trace hash)
}

var universe = map[string][]string{"sI": {"k0", "k1", "k2", "k3", "k4", ""}, "iS": {"0", "1", "2", "3", "4", "-1"},
	"tI": {"a b|c", "a|b c", "a|", "|a", "x|y", "z|z"}}

func sortedCopy(xs []string) []string {
	out := append([]string{}, xs...)
	sort.Strings(out)
	return out
}

func eqStrs(a, b []string) bool {
	if len(a) != len(b) {
		return false
	}
	for i := range a {
		if a[i] != b[i] {
			return false
		}
	}
	return true
}

// checkDict compares the full observable state of one dictionary with its model.
func (e *engC14) checkDict(id int, d *dictVal) (string, string) {
	for _, k := range universe[d.kind] {
		mv, present := d.model[k]
		if got := d.obj.contains(k); got != present {
			return "state:ContainsKey", fmt.Sprintf("dict #%d: ContainsKey %q = %v, model says %v", id, k, got, present)
		}
		v, ok := d.obj.tryFind(k)
		if ok != present || (present && v != mv) {
			return "state:TryFind", fmt.Sprintf("dict #%d: TryFind %q = (%q,%v), model says (%q,%v)", id, k, v, ok, mv, present)
		}
		if present {
			if got := d.obj.item(k); got != mv {
				return "state:Item", fmt.Sprintf("dict #%d: Item %q = %q, model says %q", id, k, got, mv)
			}
		}
	}
	// what was enumerated at the previous look is overwritten and appended to now, after whatever happened in between
	if d.stale != nil {
		d.stale()
	}
	d.obj.scribble()()
	d.stale = d.obj.scribble()
	var mk, mvs, mkv []string
	for k, v := range d.model {
		mk = append(mk, k)
		mvs = append(mvs, v)
		mkv = append(mkv, k+"\x00"+v)
	}
	if len(d.model) >= 2 {
		e.probes["enumeration_of_dict_with_2plus_entries"] = true
	}
	if got := d.obj.keys(); !eqStrs(sortedCopy(got), sortedCopy(mk)) {
		return "enum:Keys", fmt.Sprintf("dict #%d: Keys = %q, model has %q (each entry exactly once expected)", id, got, sortedCopy(mk))
	}
	if got := d.obj.values(); !eqStrs(sortedCopy(got), sortedCopy(mvs)) {
		return "enum:Values", fmt.Sprintf("dict #%d: Values = %q, model has %q", id, got, sortedCopy(mvs))
	}
	var gkv []string
	for _, kv := range d.obj.kvs() {
		gkv = append(gkv, kv[0]+"\x00"+kv[1])
	}
	if !eqStrs(sortedCopy(gkv), sortedCopy(mkv)) {
		return "enum:KVs", fmt.Sprintf("dict #%d: KVs = %q, model has %q", id, gkv, sortedCopy(mkv))
	}
	return "", ""
}

func (e *engC14) checkAll() (string, string) {
	for _, id := range e.order {
		if d, ok := e.dicts[id]; ok {
			if o, m := e.checkDict(id, d); o != "" {
				return o, m
			}
		}
		if b, ok := e.bufs[id]; ok {
			if got := buf.String(b.b); got != b.model.String() {
				return "state:buf.String", fmt.Sprintf("buffer #%d holds %q, the writes so far give %q", id, got, b.model.String())
			}
		}
	}
	return "", ""
}

func refID(s string) int {
	if !gostrings.HasPrefix(s, "#") {
		return -1
	}
	n, err := strconv.Atoi(s[1:])
	if err != nil {
		return -1
	}
	return n
}

type myInt int
type myStr string
type someStruct struct {
	A int
	B string
}

// formatValues: id -> (value, decimal text if it is an integer kind, text if it is a string kind, isFloat)
type fmtVal struct {
	v       any
	decimal string
	str     string
	isStr   bool
	isFloat bool
	f       float64
}

var fmtValues = map[string]fmtVal{
	"int:-3":            {v: int(-3), decimal: "-3"},
	"int:0":             {v: int(0), decimal: "0"},
	"int8:-128":         {v: int8(-128), decimal: "-128"},
	"int16:-300":        {v: int16(-300), decimal: "-300"},
	"int32:70000":       {v: int32(70000), decimal: "70000"},
	"int64:1<<40":       {v: int64(1) << 40, decimal: "1099511627776"},
	"uint:7":            {v: uint(7), decimal: "7"},
	"uint8:200":         {v: uint8(200), decimal: "200"},
	"uint16:65535":      {v: uint16(65535), decimal: "65535"},
	"uint32:4000000000": {v: uint32(4000000000), decimal: "4000000000"},
	"uint64:1<<63":      {v: uint64(1) << 63, decimal: "9223372036854775808"},
	"uintptr:9":         {v: uintptr(9), decimal: "9"},
	"myInt:42":          {v: myInt(42), decimal: "42"},
	"float32:1.5":       {v: float32(1.5), isFloat: true, f: 1.5},
	"float64:-2.25":     {v: float64(-2.25), isFloat: true, f: -2.25},
	"string:abc":        {v: "abc", str: "abc", isStr: true},
	"string:empty":      {v: "", str: "", isStr: true},
	"string:pct":        {v: "100%d", str: "100%d", isStr: true},
	"string:pctbang":    {v: "50%!", str: "50%!", isStr: true},
	"string:noverb":     {v: "%!(NOVERB)", str: "%!(NOVERB)", isStr: true},
	"myStr:xyz":         {v: myStr("xyz"), str: "xyz", isStr: true},
	"bool:true":         {v: true},
	"struct":            {v: someStruct{1, "x"}},
	"slice":             {v: []int{1, 2}},
	"tuple":             {v: frt.NewTuple2(1, "a")},
	"nil":               {v: nil},
	"ptrnil":            {v: (*int)(nil)},
	"rune":              {v: 'x', decimal: "120"},
	"stringer":          {v: &posT{3}},
	"error":             {v: &parseErr{"boom"}},
	"nilStringer":       {v: (*posT)(nil)},
	"nilError":          {v: (*parseErr)(nil)},
	"errorsNew":         {v: errors.New("plain error")},
	"stringerValue":     {v: tagT{"t"}},
}

// values with methods: display form is Go's %v, which calls String / Error and prints <nil> for a nil receiver
type posT struct{ line int }

func (p *posT) String() string { return fmt.Sprint("line ", p.line) }

type parseErr struct{ msg string }

func (e *parseErr) Error() string { return "parse error: " + e.msg }

type tagT struct{ s string }

func (t tagT) String() string { return "<" + t.s + ">" }

func (e *engC14) apply(op Op) (executed bool, observable, msg string) {
	arg := func(i int) string {
		if i < len(op.Args) {
			return op.Args[i]
		}
		return ""
	}
	bad := func(obs, format string, a ...any) (bool, string, string) {
		return true, obs, fmt.Sprintf(format, a...)
	}
	switch op.F {
	// ---- dict ----
	case "dict.New":
		var o dictObj
		if op.Fn == "sI" {
			o = dictSI{dict.New[string, int]()}
		} else if op.Fn == "iS" {
			o = dictIS{dict.New[int, string]()}
		} else if op.Fn == "tI" {
			o = dictTI{dict.New[frt.Tuple2[string, string], int]()}
		} else {
			return false, "", ""
		}
		e.dicts[op.Out] = &dictVal{kind: op.Fn, obj: o, model: map[string]string{}}
		e.order = append(e.order, op.Out)
	case "dict.Alias":
		d := e.dicts[refID(arg(0))]
		if d == nil {
			return false, "", ""
		}
		e.dicts[op.Out] = &dictVal{kind: d.kind, obj: d.obj, model: d.model}
		e.order = append(e.order, op.Out)
		e.probes["dict_shared_by_two_holders"] = true
	case "dict.Add":
		d := e.dicts[refID(arg(0))]
		if d == nil {
			return false, "", ""
		}
		if _, had := d.model[arg(1)]; had {
			e.probes["overwrite"] = true
		}
		d.obj.add(arg(1), arg(2))
		d.model[arg(1)] = arg(2)
		if d.kind == "sI" || d.kind == "tI" {
			d.model[arg(1)] = strconv.Itoa(atoi(arg(2)))
		} else {
			// keys are ints in text form
			delete(d.model, arg(1))
			d.model[strconv.Itoa(atoi(arg(1)))] = arg(2)
		}
	case "dict.ToDict":
		var o dictObj
		model := map[string]string{}
		seen := map[string]bool{}
		if op.Fn == "sI" {
			var ps []frt.Tuple2[string, int]
			for _, a := range op.Args {
				k, v, _ := gostrings.Cut(a, "=")
				ps = append(ps, frt.NewTuple2(k, atoi(v)))
				if seen[k] {
					e.probes["todict_duplicate_key"] = true
				}
				seen[k] = true
				model[k] = strconv.Itoa(atoi(v))
			}
			o = dictSI{dict.ToDict(ps)}
		} else if op.Fn == "iS" {
			var ps []frt.Tuple2[int, string]
			for _, a := range op.Args {
				k, v, _ := gostrings.Cut(a, "=")
				ps = append(ps, frt.NewTuple2(atoi(k), v))
				kk := strconv.Itoa(atoi(k))
				if seen[kk] {
					e.probes["todict_duplicate_key"] = true
				}
				seen[kk] = true
				model[kk] = v
			}
			o = dictIS{dict.ToDict(ps)}
		} else {
			return false, "", ""
		}
		e.dicts[op.Out] = &dictVal{kind: op.Fn, obj: o, model: model}
		e.order = append(e.order, op.Out)
	case "dict.ToDictOfKVs":
		d := e.dicts[refID(arg(0))]
		if d == nil {
			return false, "", ""
		}
		m := map[string]string{}
		for k, v := range d.model {
			m[k] = v
		}
		e.dicts[op.Out] = &dictVal{kind: d.kind, obj: d.obj.toDictOfKVs(), model: m}
		e.order = append(e.order, op.Out)
	case "dict.ContainsKey", "dict.TryFind", "dict.Item", "dict.Keys", "dict.Values", "dict.KVs":
		// reads: the per-step state check below performs exactly these observations on every live dictionary
		if e.dicts[refID(arg(0))] == nil {
			return false, "", ""
		}
	// ---- buf ----
	case "buf.New":
		e.bufs[op.Out] = &bufVal{b: buf.New(), model: &gostrings.Builder{}}
		e.order = append(e.order, op.Out)
	case "buf.Alias":
		b := e.bufs[refID(arg(0))]
		if b == nil {
			return false, "", ""
		}
		e.bufs[op.Out] = &bufVal{b: b.b, model: b.model}
		e.order = append(e.order, op.Out)
		e.probes["buffer_shared_by_two_holders"] = true
	case "buf.Write":
		b := e.bufs[refID(arg(0))]
		if b == nil {
			return false, "", ""
		}
		buf.Write(b.b, arg(1))
		b.model.WriteString(arg(1))
	case "buf.String":
		if e.bufs[refID(arg(0))] == nil {
			return false, "", ""
		}
	// ---- strings (pure; checked against the Go standard library) ----
	case "strings.Concat":
		xs := op.Args[1:]
		if got, want := fstrings.Concat(arg(0), xs), gostrings.Join(xs, arg(0)); got != want {
			return bad("result", "strings.Concat %q %q = %q, want %q", arg(0), xs, got, want)
		}
	case "strings.Length":
		if got := fstrings.Length(arg(0)); got != len(arg(0)) {
			return bad("result", "strings.Length %q = %d", arg(0), got)
		}
	case "strings.AppendTail":
		if got, want := fstrings.AppendTail(arg(0), arg(1)), arg(1)+arg(0); got != want {
			return bad("result", "strings.AppendTail %q %q = %q, want %q", arg(0), arg(1), got, want)
		}
	case "strings.AppendHead":
		if got, want := fstrings.AppendHead(arg(0), arg(1)), arg(0)+arg(1); got != want {
			return bad("result", "strings.AppendHead %q %q = %q, want %q", arg(0), arg(1), got, want)
		}
	case "strings.HasSuffix":
		if got, want := fstrings.HasSuffix(arg(0), arg(1)), gostrings.HasSuffix(arg(1), arg(0)); got != want {
			return bad("result", "strings.HasSuffix %q %q = %v, want %v", arg(0), arg(1), got, want)
		}
	case "strings.HasPrefix":
		if got, want := fstrings.HasPrefix(arg(0), arg(1)), gostrings.HasPrefix(arg(1), arg(0)); got != want {
			return bad("result", "strings.HasPrefix %q %q = %v, want %v", arg(0), arg(1), got, want)
		}
	case "strings.TrimSuffix":
		if got, want := fstrings.TrimSuffix(arg(0), arg(1)), gostrings.TrimSuffix(arg(1), arg(0)); got != want {
			return bad("result", "strings.TrimSuffix %q %q = %q, want %q", arg(0), arg(1), got, want)
		}
	case "strings.EncloseWith":
		if got, want := fstrings.EncloseWith(arg(0), arg(1), arg(2)), arg(0)+arg(2)+arg(1); got != want {
			return bad("result", "strings.EncloseWith %q %q %q = %q, want %q", arg(0), arg(1), arg(2), got, want)
		}
	case "strings.Split":
		if got, want := fstrings.Split(arg(0), arg(1)), gostrings.Split(arg(1), arg(0)); !eqStrs(got, want) {
			return bad("result", "strings.Split %q %q = %q, want %q", arg(0), arg(1), got, want)
		}
	case "strings.SplitN":
		n := atoi(arg(0))
		if got, want := fstrings.SplitN(n, arg(1), arg(2)), gostrings.SplitN(arg(2), arg(1), n); !eqStrs(got, want) {
			return bad("result", "strings.SplitN %d %q %q = %q, want %q", n, arg(1), arg(2), got, want)
		}
	case "strings.IsEmpty":
		if got := fstrings.IsEmpty(arg(0)); got != (arg(0) == "") {
			return bad("result", "strings.IsEmpty %q = %v", arg(0), got)
		}
	case "strings.IsNotEmpty":
		if got := fstrings.IsNotEmpty(arg(0)); got != (arg(0) != "") {
			return bad("result", "strings.IsNotEmpty %q = %v", arg(0), got)
		}
	// ---- frt (pure) ----
	case "frt.Pipe":
		x := atoi(arg(0))
		if got := frt.Pipe(x, func(a int) string { return strconv.Itoa(a + 1) }); got != strconv.Itoa(x+1) {
			return bad("result", "frt.Pipe %d f = %q, want f applied to it", x, got)
		}
		called := 0
		frt.PipeUnit(x, func(a int) {
			if a == x {
				called++
			}
		})
		if called != 1 {
			return bad("result", "frt.PipeUnit called its function %d times with the piped value", called)
		}
	case "frt.IfElse":
		cond := arg(0) == "true"
		tc, fc := 0, 0
		got := frt.IfElse(cond, func() string { tc++; return "T" }, func() string { fc++; return "F" })
		want := map[bool]string{true: "T", false: "F"}[cond]
		if got != want || tc+fc != 1 || (cond && tc != 1) || (!cond && fc != 1) {
			return bad("branches", "frt.IfElse %v: result %q, then-thunk ran %d times, else-thunk %d times", cond, got, tc, fc)
		}
		tc, fc = 0, 0
		frt.IfElseUnit(cond, func() { tc++ }, func() { fc++ })
		if tc+fc != 1 || (cond && tc != 1) || (!cond && fc != 1) {
			return bad("branches", "frt.IfElseUnit %v: then-thunk ran %d times, else-thunk %d times", cond, tc, fc)
		}
		tc = 0
		frt.IfOnly(cond, func() { tc++ })
		if (cond && tc != 1) || (!cond && tc != 0) {
			return bad("branches", "frt.IfOnly %v: thunk ran %d times", cond, tc)
		}
	case "frt.Tuple":
		a, b, c := atoi(arg(0)), arg(1), arg(2) == "true"
		t2 := frt.NewTuple2(a, b)
		x, y := frt.Destr2(t2)
		if x != a || y != b || frt.Fst(t2) != a || frt.Snd(t2) != b {
			return bad("result", "NewTuple2/Destr2/Fst/Snd are not inverse on (%d,%q)", a, b)
		}
		x3, y3, z3 := frt.Destr3(frt.NewTuple3(a, b, c))
		if x3 != a || y3 != b || z3 != c {
			return bad("result", "NewTuple3/Destr3 are not inverse on (%d,%q,%v)", a, b, c)
		}
		// components of one and the same type: a swap cannot hide behind the type checker
		same := frt.NewTuple2(a, a+1)
		p, q := frt.Destr2(same)
		if p != a || q != a+1 || frt.Fst(same) != a || frt.Snd(same) != a+1 {
			return bad("result", "tuple of two ints (%d,%d) comes back as (%d,%d), Fst %d, Snd %d", a, a+1, p, q, frt.Fst(same), frt.Snd(same))
		}
		p3, q3, r3 := frt.Destr3(frt.NewTuple3(a, a+1, a+2))
		if p3 != a || q3 != a+1 || r3 != a+2 {
			return bad("result", "tuple of three ints comes back as (%d,%d,%d)", p3, q3, r3)
		}
		if got := frt.Sprintf2("%d<%d", a, a+1); got != strconv.Itoa(a)+"<"+strconv.Itoa(a+1) {
			return bad("format", "frt.Sprintf2(\"%%d<%%d\", %d, %d) = %q", a, a+1, got)
		}
		if got := frt.SInterP("%s|%s|%s", int8(a%100), b, uint64(a)); got != strconv.Itoa(a%100)+"|"+b+"|"+strconv.Itoa(a) {
			return bad("format", "frt.SInterP with three holes of mixed kinds = %q", got)
		}
	case "frt.SInterP":
		fv, ok := fmtValues[op.Fn]
		if !ok {
			return false, "", ""
		}
		got := frt.SInterP("<%s>", fv.v)
		switch {
		case fv.decimal != "":
			if got != "<"+fv.decimal+">" {
				return bad("format", "frt.SInterP(\"<%%s>\", %s) = %q, want the decimal value %q", op.Fn, got, "<"+fv.decimal+">")
			}
		case fv.isStr:
			if got != "<"+fv.str+">" {
				return bad("format", "frt.SInterP(\"<%%s>\", %s) = %q, want the string itself", op.Fn, got)
			}
		case fv.isFloat:
			f, err := strconv.ParseFloat(gostrings.Trim(got, "<>"), 64)
			if err != nil || f != fv.f {
				return bad("format", "frt.SInterP(\"<%%s>\", %s) = %q, which does not read back as the value", op.Fn, got)
			}
		default:
			if want := fmt.Sprintf("<%v>", fv.v); got != want {
				return bad("format", "frt.SInterP(\"<%%s>\", %s) = %q, want Go %%v form %q", op.Fn, got, want)
			}
		}
		if got2 := frt.SInterP("%s and %s", fv.v, "s"); !gostrings.HasSuffix(got2, " and s") || (fv.isStr && got2 != fv.str+" and s") || (!fv.isStr && gostrings.Contains(got2, "%!")) {
			return bad("format", "frt.SInterP with two holes on %s gives %q", op.Fn, got2)
		}
	case "frt.Sprintf":
		fv, ok := fmtValues[op.Fn]
		if !ok {
			return false, "", ""
		}
		if fv.decimal != "" {
			if got := frt.Sprintf1("%d", fv.v); got != fv.decimal {
				return bad("format", "frt.Sprintf1(\"%%d\", %s) = %q, want %q", op.Fn, got, fv.decimal)
			}
			if got := frt.Sprintf2("%d-%s", fv.v, "z"); got != fv.decimal+"-z" {
				return bad("format", "frt.Sprintf2(\"%%d-%%s\", %s, \"z\") = %q", op.Fn, got)
			}
		}
		if fv.isStr {
			if got := frt.Sprintf1("%s", fv.v); got != fv.str {
				return bad("format", "frt.Sprintf1(\"%%s\", %s) = %q", op.Fn, got)
			}
		}
		if got, want := frt.Sprintf1("%v", fv.v), fmt.Sprintf("%v", fv.v); got != want {
			return bad("format", "frt.Sprintf1(\"%%v\", %s) = %q, want %q", op.Fn, got, want)
		}
		if got, want := frt.Sprintf2("%v|%v", fv.v, fv.v), fmt.Sprintf("%v|%v", fv.v, fv.v); got != want {
			return bad("format", "frt.Sprintf2(\"%%v|%%v\", %s, %s) = %q, want %q", op.Fn, op.Fn, got, want)
		}
	default:
		return false, "", ""
	}
	return true, "", ""
}

func isRelevant(f string) bool {
	return gostrings.HasPrefix(f, "dict.") || gostrings.HasPrefix(f, "buf.")
}

func runC14(h *History, st *Stats) *Violation {
	e := &engC14{dicts: map[int]*dictVal{}, bufs: map[int]*bufVal{}, probes: map[string]bool{}}
	installSched(h, e)
	defer removeSched()
	var viol *Violation
	cur := 0
	func() {
		defer func() {
			if r := recover(); r != nil {
				op := h.Ops[cur]
				viol = &Violation{Class: "panic", Signature: "C14:" + op.F + ":panic", AtOp: cur,
					Detail: fmt.Sprintf("operation %d (%s %s %q) panicked: %v", cur, op.F, op.Fn, op.Args, r)}
			}
		}()
		for i, op := range h.Ops {
			cur = i
			ok, obs, msg := e.apply(op)
			if !ok {
				continue
			}
			if st != nil {
				st.count("op:"+op.F, 1)
				if isRelevant(op.F) {
					st.count("simulation_relevant_ops", 1)
				} else {
					st.count("pure_ops", 1)
				}
			}
			if obs != "" {
				viol = &Violation{Class: obs, Signature: "C14:" + op.F + ":" + obs, AtOp: i, Detail: msg}
				return
			}
			if isRelevant(op.F) {
				if obs, msg := e.checkAll(); obs != "" {
					viol = &Violation{Class: obs, Signature: "C14:" + op.F + ":" + obs, AtOp: i,
						Detail: fmt.Sprintf("after operation %d (%s %s %q): %s", i, op.F, op.Fn, op.Args, msg)}
					return
				}
			}
		}
	}()
	h.nontrivial = e.probes["overwrite"] || e.probes["todict_duplicate_key"] || e.probes["enumeration_of_dict_with_2plus_entries"]
	if st != nil {
		for p := range e.probes {
			st.count("probe:"+p, 1)
		}
		st.count("enum_points_scheduled", len(e.enumLog))
	}
	h.trace = gostrings.Join(e.enumLog, ";")
	return viol
}

// ---- generation ----

var strPool = []string{"", "a", "ab", "abc", ",", "a,b", ",a,", "a,,b", "aa", "aaaa", "aaa", "日本", "日本語,日本", "é,è", "x y", "%d", "ab,ab", ",,", "ababab"}

func genHistoryC14(r *common.Rng, seed int64, run int, config string) *History {
	h := &History{V: 1, Property: "C14", Seed: seed, Run: run, Config: config}
	sched := map[string]any{"mode": "seeded", "seed": r.Next(), "style": r.Pick("shuffle", "reverse", "rotate", "swap", "lastfirst", "mixed", "identity")}
	if sched["style"] == "identity" {
		sched = map[string]any{"mode": "identity"}
	}
	h.Sched, _ = json.Marshal(sched)
	next := 1
	type gv struct {
		id   int
		kind string
	}
	var dicts, bufs []gv
	s := func() string { return strPool[r.Intn(len(strPool))] }
	fmtKeys := keysOfFmt()
	n := r.Range(1, 40)
	relevantBias := r.Range(3, 9) // out of 10: share of dict/buf operations (swarm)
	for len(h.Ops) < n {
		if r.Intn(10) < relevantBias {
			switch k := r.Intn(14); {
			case k < 2 || len(dicts) == 0 && k < 9:
				kind := r.Pick("sI", "iS", "tI")
				h.Ops = append(h.Ops, Op{F: "dict.New", Fn: kind, Out: next})
				dicts = append(dicts, gv{next, kind})
				next++
			case k < 7:
				d := dicts[r.Intn(len(dicts))]
				key := universe[d.kind][r.Intn(len(universe[d.kind])-1)] // last universe key is never added on purpose
				val := fmt.Sprint(r.Intn(50))
				if d.kind == "iS" {
					val = s()
				}
				h.Ops = append(h.Ops, Op{F: "dict.Add", Args: []string{fmt.Sprint("#", d.id), key, val}})
			case k < 8:
				d := dicts[r.Intn(len(dicts))]
				h.Ops = append(h.Ops, Op{F: r.Pick("dict.Keys", "dict.Values", "dict.KVs", "dict.TryFind", "dict.ContainsKey"), Args: []string{fmt.Sprint("#", d.id)}})
			case k < 9:
				kind := r.Pick("sI", "iS")
				var args []string
				for i, m := 0, r.Intn(7); i < m; i++ {
					key := universe[kind][r.Intn(len(universe[kind])-1)]
					val := fmt.Sprint(r.Intn(50))
					if kind == "iS" {
						val = gostrings.ReplaceAll(s(), "=", "")
					}
					args = append(args, key+"="+val)
				}
				h.Ops = append(h.Ops, Op{F: "dict.ToDict", Fn: kind, Args: args, Out: next})
				dicts = append(dicts, gv{next, kind})
				next++
			case k < 10 && len(dicts) > 0:
				d := dicts[r.Intn(len(dicts))]
				f := "dict.Alias"
				if r.Chance(1, 2) {
					f = "dict.ToDictOfKVs"
				}
				h.Ops = append(h.Ops, Op{F: f, Args: []string{fmt.Sprint("#", d.id)}, Out: next})
				dicts = append(dicts, gv{next, d.kind})
				next++
			case k < 11 || len(bufs) == 0:
				h.Ops = append(h.Ops, Op{F: "buf.New", Out: next})
				bufs = append(bufs, gv{next, "buf"})
				next++
			case k < 13:
				b := bufs[r.Intn(len(bufs))]
				h.Ops = append(h.Ops, Op{F: "buf.Write", Args: []string{fmt.Sprint("#", b.id), s()}})
			default:
				b := bufs[r.Intn(len(bufs))]
				h.Ops = append(h.Ops, Op{F: "buf.Alias", Args: []string{fmt.Sprint("#", b.id)}, Out: next})
				bufs = append(bufs, gv{next, "buf"})
				next++
			}
			continue
		}
		switch r.Intn(17) {
		case 0:
			args := []string{r.Pick(",", "", ", ", "ab")}
			for i, m := 0, r.Intn(5); i < m; i++ {
				args = append(args, s())
			}
			h.Ops = append(h.Ops, Op{F: "strings.Concat", Args: args})
		case 1:
			h.Ops = append(h.Ops, Op{F: r.Pick("strings.Length", "strings.IsEmpty", "strings.IsNotEmpty"), Args: []string{s()}})
		case 2:
			h.Ops = append(h.Ops, Op{F: r.Pick("strings.AppendTail", "strings.AppendHead"), Args: []string{s(), s()}})
		case 3, 4:
			h.Ops = append(h.Ops, Op{F: r.Pick("strings.HasSuffix", "strings.HasPrefix", "strings.TrimSuffix"), Args: []string{s(), s()}})
		case 5:
			h.Ops = append(h.Ops, Op{F: "strings.EncloseWith", Args: []string{s(), s(), s()}})
		case 6, 7:
			h.Ops = append(h.Ops, Op{F: "strings.Split", Args: []string{r.Pick(",", "a", "ab", ",,", " ", "", "aa", "日"), s()}})
		case 8:
			h.Ops = append(h.Ops, Op{F: "strings.SplitN", Args: []string{fmt.Sprint(r.Range(-1, 4)), r.Pick(",", "a", " ", "", "ab"), s()}})
		case 9:
			h.Ops = append(h.Ops, Op{F: "frt.Pipe", Args: []string{fmt.Sprint(r.Intn(100))}})
		case 10, 11:
			h.Ops = append(h.Ops, Op{F: "frt.IfElse", Args: []string{r.Pick("true", "false")}})
		case 12:
			h.Ops = append(h.Ops, Op{F: "frt.Tuple", Args: []string{fmt.Sprint(r.Intn(100)), s(), r.Pick("true", "false")}})
		case 13, 14:
			h.Ops = append(h.Ops, Op{F: "frt.SInterP", Fn: fmtKeys[r.Intn(len(fmtKeys))]})
		default:
			h.Ops = append(h.Ops, Op{F: "frt.Sprintf", Fn: fmtKeys[r.Intn(len(fmtKeys))]})
		}
	}
	return h
}

func keysOfFmt() []string {
	ks := make([]string, 0, len(fmtValues))
	for k := range fmtValues {
		ks = append(ks, k)
	}
	sort.Strings(ks)
	return ks
}

func shrinkC14(h *History, sig string) *History {
	cur := *h
	ops := h.Ops
	mk := func(keep []int) *History {
		n := cur
		n.Ops = nil
		for _, i := range keep {
			n.Ops = append(n.Ops, ops[i])
		}
		return &n
	}
	keep := common.DDMin(len(ops), func(keep []int) bool {
		v := runC14(mk(keep), nil)
		return v != nil && v.Signature == sig
	})
	cur = *mk(keep)
	// the schedule: does the identity schedule do as well?
	if schedAvailable {
		n := cur
		n.Sched = json.RawMessage(`{"mode":"identity"}`)
		if v := runC14(&n, nil); v != nil && v.Signature == sig {
			cur = n
		}
	}
	return &cur
}

func checkC14(tier string, seed int64) {
	t0 := time.Now()
	// the 'sched' configuration runs one history at a time (package-level schedule), the shipped one on all cores
	n := 400000
	if tier != "quick" {
		n = 12000000
	}
	config := "shipped"
	if schedAvailable {
		config = "sched"
		n = 100000
		if tier != "quick" {
			n = 3000000
		}
	}
	st := &Stats{Counters: common.Counter{}, Distinct: map[string]bool{}}
	type outcome struct {
		h *History
		v *Violation
	}
	var firstBad []outcome
	distinct := 0
	const batch = 20000
	// The enumeration seam keeps its schedule in package state, so histories of the "sched" configuration run
	// one at a time; the shipped configuration runs on all cores.
	for start := 0; start < n; start += batch {
		m := batch
		if start+m > n {
			m = n - start
		}
		run := func(k int) outcome {
			i := start + k
			r := common.NewRng(common.Mix(uint64(seed), 14, uint64(i)))
			h := genHistoryC14(r, seed, i, config)
			return outcome{h, runC14(h, st)}
		}
		var outs []outcome
		if schedAvailable {
			outs = make([]outcome, m)
			for k := 0; k < m; k++ {
				outs[k] = run(k)
			}
		} else {
			outs = parallelRuns(m, run)
		}
		for _, o := range outs {
			b, _ := json.Marshal(o.h.Ops)
			if o.h.nontrivial && st.mark(string(b)+o.h.trace) {
				distinct++
			}
			if o.h.Run%(n/6+1) == 0 {
				st.sample(map[string]any{"config": config, "sched": o.h.Sched, "ops": o.h.Ops, "nontrivial": o.h.nontrivial}, 6)
			}
			st.OpsRun += int64(len(o.h.Ops))
			if o.v != nil {
				st.count("raw_violation:"+o.v.Signature, 1)
				dup := false
				for _, f := range firstBad {
					if f.v.Signature == o.v.Signature {
						dup = true
					}
				}
				if !dup {
					firstBad = append(firstBad, o)
				}
			}
		}
		st.Distinct = map[string]bool{}
	}
	rep := newReporter("C14", seed)
	violations := 0
	for _, h := range corpusHistories("C14") {
		st.count("corpus_histories", 1)
		h.Config = config
		if v := runC14(h, st); v != nil {
			firstBad = append(firstBad, outcome{h, v})
		}
	}
	for _, o := range firstBad {
		sh := shrinkC14(o.h, o.v.Signature)
		sv := runC14(sh, nil)
		if sv == nil {
			sh, sv = o.h, o.v
		}
		if rep.report(sh, sv, func(h *History) *Violation { return runC14(h, nil) }) {
			violations++
		}
	}
	// This process is one of two configurations; the driver merges both partial results into evidence/C14.json.
	part := map[string]any{
		"config": config, "histories": n, "distinct_nontrivial": distinct, "operations_executed": st.OpsRun, "counters": st.Counters,
		"samples": st.Samples, "violations": violations, "known": rep.known, "wall_s": time.Since(t0).Seconds(),
	}
	b, _ := json.MarshalIndent(part, "", " ")
	if len(os.Args) > 5 {
		if err := os.WriteFile(os.Args[5], b, 0644); err != nil {
			fail2("write partial result: %v", err)
		}
	}
	if violations > 0 {
		os.Exit(1)
	}
	if rep.unreproduced > 0 {
		fail2("%d failure(s) did not replay and no replay-confirmed violation was found; inconclusive", rep.unreproduced)
	}
	fmt.Printf("OK property=C14 config=%s tier=%s wall=%.1fs histories=%d\n", config, tier, time.Since(t0).Seconds(), n)
}
