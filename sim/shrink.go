package main

import (
	"encoding/base64"
	"path/filepath"

	"fosim/common"
)

func same(v *Violation, class string) bool { return v != nil && v.Class == class }

// shrinkArgv drops command-line arguments (and their files) while the failure of the same class persists.
func shrinkArgv(c *Ctx, sc *Scenario, class string, judge Judge) *Scenario {
	if len(sc.Argv) <= 1 {
		return sc
	}
	argv := sc.Argv
	mk := func(keep []int) *Scenario {
		s := sc.Clone()
		s.Argv = nil
		for _, i := range keep {
			s.Argv = append(s.Argv, argv[i])
		}
		return s
	}
	keep := common.DDMin(len(argv), func(keep []int) bool {
		if len(keep) == 0 {
			return false
		}
		return same(judge(c, mk(keep)), class)
	})
	if len(keep) == 0 {
		return sc
	}
	return mk(keep)
}

// shrinkItems drops top-level items inside every file named on the command line.
func shrinkItems(c *Ctx, sc *Scenario, class string, judge Judge) *Scenario {
	cur := sc
	seen := map[string]bool{}
	for _, a := range sc.Argv {
		path := filepath.Clean(a)
		if seen[path] {
			continue
		}
		seen[path] = true
		content, ok := cur.Disk.Get(path)
		if !ok {
			continue
		}
		items := chunkFo(string(content))
		if len(items) <= 1 {
			continue
		}
		base := cur
		mk := func(keep []int) *Scenario {
			s := base.Clone()
			var kept []Item
			for _, i := range keep {
				kept = append(kept, items[i])
			}
			f := s.Disk.Files[path]
			f.B64 = base64.StdEncoding.EncodeToString([]byte(joinItems(kept)))
			f.Origin += "|shrunk"
			return s
		}
		keep := common.DDMin(len(items), func(keep []int) bool {
			return same(judge(c, mk(keep)), class)
		})
		cur = mk(keep)
	}
	return cur
}

// dropUnusedFiles removes disk files no argument names (they cannot matter to fc).
func dropUnusedFiles(sc *Scenario) *Scenario {
	s := sc.Clone()
	used := map[string]bool{}
	for _, a := range s.Argv {
		used[filepath.Clean(a)] = true
	}
	for p := range s.Disk.Files {
		if !used[filepath.Clean(p)] {
			delete(s.Disk.Files, p)
		}
	}
	return s
}

func shrinkProgram(c *Ctx, sc *Scenario, class string, judge Judge) *Scenario {
	cur := shrinkArgv(c, sc, class, judge)
	cur = shrinkItems(c, cur, class, judge)
	if sc.Program != "build_sample_md" {
		d := dropUnusedFiles(cur)
		if same(judge(c, d), class) {
			cur = d
		}
	}
	return cur
}

// shrinkFaults drops injected faults, then disk damage records, while the failure persists.
func shrinkFaults(c *Ctx, sc *Scenario, class string, judge Judge) *Scenario {
	cur := sc
	if len(cur.Faults) > 0 {
		faults := cur.Faults
		base := cur
		mk := func(keep []int) *Scenario {
			s := base.Clone()
			s.Faults = nil
			for _, i := range keep {
				s.Faults = append(s.Faults, faults[i])
			}
			return s
		}
		keep := common.DDMin(len(faults), func(keep []int) bool { return same(judge(c, mk(keep)), class) })
		cur = mk(keep)
	}
	if cur.Disk.Capacity > 0 {
		s := cur.Clone()
		s.Disk.Capacity = 0
		if same(judge(c, s), class) {
			cur = s
		}
	}
	return cur
}

// shrinkLines drops single lines of every .fo argument (used after item-level shrinking).
func shrinkLines(c *Ctx, sc *Scenario, class string, judge Judge) *Scenario {
	cur := sc
	seen := map[string]bool{}
	for _, a := range sc.Argv {
		path := filepath.Clean(a)
		if seen[path] || filepath.Ext(path) != ".fo" {
			continue
		}
		seen[path] = true
		content, ok := cur.Disk.Get(path)
		if !ok {
			continue
		}
		lines := splitKeep(string(content))
		if len(lines) <= 1 || len(lines) > 400 {
			continue
		}
		base := cur
		mk := func(keep []int) *Scenario {
			s := base.Clone()
			var sb []byte
			for _, i := range keep {
				sb = append(sb, lines[i]...)
			}
			f := s.Disk.Files[path]
			f.B64 = base64.StdEncoding.EncodeToString(sb)
			return s
		}
		keep := common.DDMin(len(lines), func(keep []int) bool {
			return same(judge(c, mk(keep)), class)
		})
		cur = mk(keep)
	}
	return cur
}

func splitKeep(s string) []string {
	var out []string
	for len(s) > 0 {
		i := 0
		for i < len(s) && s[i] != '\n' {
			i++
		}
		if i < len(s) {
			i++
		}
		out = append(out, s[:i])
		s = s[i:]
	}
	return out
}
