package main

import (
	"fmt"
	"os"
	"path/filepath"
	"runtime"
	"sort"
	"strconv"
	"sync"
	"sync/atomic"
	"time"

	"fosim/common"
)

// Violation is what a judge reports for one scenario.
type Violation struct {
	Class     string // coarse kind, stable under shrinking ("bytes", "decision", "exit0-incomplete", ...)
	Signature string // what identifies the finding (matched against known_findings.json)
	Detail    string // human-readable explanation
}

// Judge decides one scenario: a pure function of the scenario and the code under test.
type Judge func(c *Ctx, sc *Scenario) *Violation

type Ctx struct {
	Prop     string
	Tier     string
	Seed     uint64
	B        *Build
	Work     string // scratch dir for run directories
	Workers  int
	Findings []common.Finding
	T0       time.Time
	Deadline time.Time // soft wall-clock limit for the batch (zero: none)

	mu         sync.Mutex
	ChildRuns  int64
	TotalTicks int64
	MaxTicks   int64
	Counters   common.Counter
	Distinct   map[string]bool
	Samples    []any
	Known      []string

	Unreproduced int
}

func newCtx(prop, tier string, want ...string) *Ctx {
	seed := uint64(20260925)
	if v := os.Getenv("VERIF_SEED"); v != "" {
		n, err := strconv.ParseInt(v, 10, 64)
		if err != nil {
			u, err2 := strconv.ParseUint(v, 10, 64)
			if err2 != nil {
				harnessFail("VERIF_SEED=%q is not an integer", v)
			}
			n = int64(u)
		}
		seed = uint64(n)
	}
	fs, err := common.LoadFindings(filepath.Join(verifDir, "known_findings.json"))
	if err != nil {
		harnessFail("known_findings.json: %v", err)
	}
	c := &Ctx{Prop: prop, Tier: tier, Seed: seed, Findings: fs, T0: time.Now(),
		Counters: common.Counter{}, Distinct: map[string]bool{}}
	c.Workers = runtime.NumCPU()
	if v := os.Getenv("VERIF_WORKERS"); v != "" {
		if n, err := strconv.Atoi(v); err == nil && n > 0 {
			c.Workers = n
		}
	}
	fmt.Printf("fosim %s %s VERIF_SEED=%d workers=%d\n", prop, tier, int64(seed), c.Workers)
	if len(want) > 0 {
		c.B = NewBuild(want...)
		c.Work = filepath.Join(c.B.Dir, "runs")
		os.MkdirAll(c.Work, 0755)
	}
	return c
}

func (c *Ctx) Close() {
	if c.B != nil {
		c.B.Close()
	}
}

func (c *Ctx) count(k string, n int) {
	c.mu.Lock()
	c.Counters.Add(k, n)
	c.mu.Unlock()
}

func (c *Ctx) markDistinct(k string) bool {
	c.mu.Lock()
	defer c.mu.Unlock()
	if c.Distinct[k] {
		return false
	}
	c.Distinct[k] = true
	return true
}

func (c *Ctx) addSample(s any, max int) {
	c.mu.Lock()
	if len(c.Samples) < max {
		c.Samples = append(c.Samples, s)
	}
	c.mu.Unlock()
}

// sim runs one simulated child and does the bookkeeping every check wants.
func (c *Ctx) sim(binary string, sc *Scenario) *Result {
	r := RunSim(binary, sc, c.Work)
	atomic.AddInt64(&c.ChildRuns, 1)
	if r.WallS > 3 && os.Getenv("VERIF_SLOW") != "" {
		fmt.Fprintf(os.Stderr, "slow child: %.1fs ticks=%d exit=%d budget=%v note=%s\n", r.WallS, r.Ticks, r.Exit, r.Budget, sc.Note)
	}
	atomic.AddInt64(&c.TotalTicks, r.Ticks)
	c.mu.Lock()
	if r.Ticks > c.MaxTicks {
		c.MaxTicks = r.Ticks
	}
	for _, e := range r.Events {
		switch e.Op {
		case "enum":
			c.Counters.Add("enum_points", 1)
			c.Counters.Add("enum_site:"+e.Site, 1)
			if !isIdentityPerm(e.Perm) {
				c.Counters.Add("enum_points_permuted", 1)
				c.Counters.Add("enum_permuted_site:"+e.Site, 1)
				c.Distinct["triple:"+e.Site+"|"+strconv.Itoa(e.N)+"|"+permClass(e.Perm)] = true
			}
			nb := e.N
			if nb > 8 {
				nb = 9
			}
			c.Counters.Add(fmt.Sprintf("enum_n:%d%s", nb, map[bool]string{true: "+", false: ""}[nb == 9]), 1)
		case "read":
			if e.Fault != "" {
				c.Counters.Add("fault_fired:"+e.Fault, 1)
			}
		case "write":
			if e.Fault != "" && !e.Ok {
				c.Counters.Add("fault_fired:"+e.Fault, 1)
			}
		case "budget":
			c.Counters.Add("budget_exceeded", 1)
		}
	}
	c.mu.Unlock()
	if r.Watchdog {
		harnessFail("wall-clock watchdog (%v) killed a child of scenario %s run %d; inconclusive", watchdog, sc.Property, sc.Run)
	}
	return r
}

func permClass(p []int) string {
	if isIdentityPerm(p) {
		return "identity"
	}
	n := len(p)
	rev := true
	for i, x := range p {
		if x != n-1-i {
			rev = false
		}
	}
	if rev {
		return "reverse"
	}
	diff := 0
	for i, x := range p {
		if x != i {
			diff++
		}
	}
	if diff == 2 {
		return "transposition"
	}
	rot := true
	for i := range p {
		if p[i] != (p[0]+i)%n {
			rot = false
		}
	}
	if rot {
		return "rotation"
	}
	return "other"
}

// parallel evaluates fn(0..n-1) on the worker pool. Work is handed out by index, results are stored by
// index, so nothing observable depends on the number of workers. If stop returns true for a result, no
// index above it is started any more (all below it are still completed).
func parallel[T any](c *Ctx, n int, fn func(i int) T, stop func(T) bool) []T {
	res := make([]T, n)
	done := make([]bool, n)
	var next int64 = -1
	var limit int64 = int64(n)
	var wg sync.WaitGroup
	for w := 0; w < c.Workers; w++ {
		wg.Add(1)
		go func() {
			defer wg.Done()
			for {
				i := atomic.AddInt64(&next, 1)
				if i >= atomic.LoadInt64(&limit) {
					return
				}
				if !c.Deadline.IsZero() && time.Now().After(c.Deadline) {
					for {
						l := atomic.LoadInt64(&limit)
						if i >= l || atomic.CompareAndSwapInt64(&limit, l, i) {
							break
						}
					}
					return
				}
				r := fn(int(i))
				res[i] = r
				done[i] = true
				if stop != nil && stop(r) {
					for {
						l := atomic.LoadInt64(&limit)
						if i+1 >= l || atomic.CompareAndSwapInt64(&limit, l, i+1) {
							break
						}
					}
				}
			}
		}()
	}
	wg.Wait()
	// keep the completed prefix only
	k := 0
	for k < n && done[k] {
		k++
	}
	return res[:k]
}

// ---- reporting ----

type found struct {
	sc *Scenario
	v  *Violation
}

// report shrinks a failing scenario, writes the replay file, confirms it in fresh processes and prints
// either KNOWN-FINDING (listed in known_findings.json) or VIOLATION. It returns true for a new violation.
func (c *Ctx) report(sc *Scenario, v *Violation, judge Judge, shrink func(c *Ctx, sc *Scenario, v *Violation, judge Judge) (*Scenario, *Violation)) bool {
	if shrink != nil {
		sc, v = shrink(c, sc, v, judge)
	}
	// confirm: the minimised scenario must fail the same way again, twice. A failure that does not replay is
	// never reported as a violation: it is kept aside and makes the check inconclusive (exit 2) unless a
	// replay-confirmed violation is reported as well.
	for i := 0; i < 2; i++ {
		v2 := judge(c, sc)
		if v2 == nil || v2.Signature != v.Signature {
			got := "no violation"
			if v2 != nil {
				got = v2.Signature
			}
			path := filepath.Join(verifDir, "replays", fmt.Sprintf("tmp-unreproduced-%s-%d-%d.json", c.Prop, int64(c.Seed), sc.Run))
			saveScenario(path, sc)
			fmt.Fprintf(os.Stderr, "HARNESS-WARNING: replay of %s did not reproduce (%s, then %s); scenario kept at %s\n", c.Prop, v.Signature, got, path)
			c.mu.Lock()
			c.Unreproduced++
			c.mu.Unlock()
			return false
		}
	}
	sc.Expect = &Expect{Class: v.Class, Signature: v.Signature, Detail: v.Detail}
	if k := common.KnownFor(c.Findings, c.Prop, v.Signature); k != nil {
		msg := fmt.Sprintf("KNOWN-FINDING: property=%s %s [%s]", c.Prop, k.What, v.Signature)
		c.mu.Lock()
		dup := false
		for _, m := range c.Known {
			if m == msg {
				dup = true
			}
		}
		if !dup {
			c.Known = append(c.Known, msg)
			fmt.Println(msg)
		}
		c.mu.Unlock()
		return false
	}
	path := filepath.Join(verifDir, "replays", fmt.Sprintf("%s-%d-%d.json", c.Prop, int64(c.Seed), sc.Run))
	saveScenario(path, sc)
	fmt.Printf("violation class=%s signature=%s\n%s\n", v.Class, v.Signature, v.Detail)
	fmt.Printf("VIOLATION property=%s replay=%s\n", c.Prop, path)
	return true
}

// writeEvidence fills the common keys and writes evidence/<id>.json.
func (c *Ctx) writeEvidence(level string, evaluations, distinct int, rule string, extra map[string]any, assumptions []string, violations int) {
	wall := time.Since(c.T0).Seconds()
	cov := map[string]any{
		"evaluations":         evaluations,
		"distinct_nontrivial": distinct,
		"rule":                rule,
		"samples":             c.Samples,
		"child_runs":          c.ChildRuns,
		"simulated_ticks":     c.TotalTicks,
		"max_ticks_one_run":   c.MaxTicks,
		"runs_per_hour":       int(float64(c.ChildRuns) / wall * 3600),
		"seeds_per_hour":      int(float64(evaluations) / wall * 3600),
		"counters":            c.Counters,
		"workers":             c.Workers,
		"known_findings_seen": c.Known,
		"real_vs_stub": map[string]string{
			"real":    "fc tokenizer/parser/inference/emitter (gen_*.go, wrapper.go), pkg/frt slice strings buf dict, cmd/build_sample_md, path/filepath, fmt; dict enumeration loop runs for real, its order is decided by the seam",
			"stub":    "file contents and outcomes behind sys.ReadFile/WriteFile (SimDisk), enumeration order (EnumSched), step clock (inserted ticks)",
			"outside": "Go runtime (no goroutines in the SUT), OS pipes/exit status, gofmt and go build where the recipe needs them",
		},
	}
	triples := 0
	for k := range c.Distinct {
		if len(k) > 7 && k[:7] == "triple:" {
			triples++
		}
	}
	cov["distinct_site_n_permclass_triples"] = triples
	if c.B != nil {
		cov["build_s"] = c.B.BuildS
	}
	for k, v := range extra {
		cov[k] = v
	}
	if c.Samples == nil {
		cov["samples"] = []any{}
	}
	ev := &common.Evidence{PropertyID: c.Prop, Tier: c.Tier, Seed: int64(c.Seed), Level: level, Coverage: cov,
		Assumptions: assumptions, WallS: wall, Violations: violations}
	if err := ev.Write(filepath.Join(verifDir, "evidence", c.Prop+".json")); err != nil {
		harnessFail("write evidence: %v", err)
	}
}

func sortedKeys[V any](m map[string]V) []string {
	ks := make([]string, 0, len(m))
	for k := range m {
		ks = append(ks, k)
	}
	sort.Strings(ks)
	return ks
}

func finish(c *Ctx, violations int) {
	c.Close()
	cleanupAll()
	if violations > 0 {
		os.Exit(1)
	}
	if c.Unreproduced > 0 {
		fmt.Fprintf(os.Stderr, "HARNESS-ERROR: %d failure(s) did not replay and no replay-confirmed violation was found; inconclusive\n", c.Unreproduced)
		os.Exit(2)
	}
	fmt.Printf("OK property=%s tier=%s wall=%.1fs\n", c.Prop, c.Tier, time.Since(c.T0).Seconds())
	os.Exit(0)
}

// phase prints a progress line (wall-clock is only ever printed, never used for a decision).
func (c *Ctx) phase(name string) {
	fmt.Printf("[%6.1fs] %s (child runs so far: %d)\n", time.Since(c.T0).Seconds(), name, atomic.LoadInt64(&c.ChildRuns))
}
