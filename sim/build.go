package main

import (
	"bytes"
	"fmt"
	"go/ast"
	"go/format"
	"go/parser"
	"go/token"
	"os"
	"os/exec"
	"path/filepath"
	"strings"
	"time"
)

// repoDir is the tree under test. Checks always rebuild from its current working tree.
var repoDir = envOr("VERIF_REPO", "/repo")

// verifDir is where MANIFEST.json, evidence/, replays/ and known_findings.json live.
var verifDir = envOr("VERIF_DIR", "/verif")

func envOr(k, d string) string {
	if v := os.Getenv(k); v != "" {
		return v
	}
	return d
}

// harnessFail ends the process with status 2: the check could not decide. Never a VIOLATION.
func harnessFail(format string, a ...any) {
	fmt.Fprintf(os.Stderr, "HARNESS-ERROR: "+format+"\n", a...)
	cleanupAll()
	os.Exit(2)
}

var cleanups []func()

func cleanupAll() {
	for i := len(cleanups) - 1; i >= 0; i-- {
		cleanups[i]()
	}
	cleanups = nil
}

func scratchBase() string {
	if st, err := os.Stat("/dev/shm"); err == nil && st.IsDir() {
		return "/dev/shm"
	}
	return os.TempDir()
}

// Build is one scratch copy of the working tree plus the binaries built from it.
type Build struct {
	Dir      string // scratch root (removed by Close)
	Repo     string // Dir/repo: verbatim copy of the working tree (no .git, no stale binaries)
	Inst     string // Dir/inst: copy with the logical clock inserted
	FcVerif  string // tick-instrumented fc, tag verif
	FcOff    string // fc exactly as shipped (tag off, no instrumentation)
	BsmVerif string
	BsmOff   string
	BuildS   float64
}

func goEnv() []string {
	env := os.Environ()
	env = append(env, "GOFLAGS=-mod=mod", "GOPROXY=off", "GOSUMDB=off", "GOTOOLCHAIN=local", "CGO_ENABLED=0")
	return env
}

func runCmd(dir string, env []string, name string, args ...string) (string, error) {
	cmd := exec.Command(name, args...)
	cmd.Dir = dir
	if env != nil {
		cmd.Env = env
	}
	var out bytes.Buffer
	cmd.Stdout = &out
	cmd.Stderr = &out
	err := cmd.Run()
	return out.String(), err
}

func copyTree(src, dst string, skip func(rel string, isDir bool) bool) error {
	return filepath.Walk(src, func(p string, info os.FileInfo, err error) error {
		if err != nil {
			return err
		}
		rel, _ := filepath.Rel(src, p)
		if rel != "." && skip != nil && skip(rel, info.IsDir()) {
			if info.IsDir() {
				return filepath.SkipDir
			}
			return nil
		}
		target := filepath.Join(dst, rel)
		if info.IsDir() {
			return os.MkdirAll(target, 0755)
		}
		if !info.Mode().IsRegular() {
			return nil
		}
		b, err := os.ReadFile(p)
		if err != nil {
			return err
		}
		return os.WriteFile(target, b, info.Mode().Perm())
	})
}

var staleBinaries = map[string]bool{
	"fc/fc": true, "fc/tinyfo": true, "samples/fc": true, "samples/tinyfo": true, "samples/build_sample_md": true,
	"tinyfo/tinyfo": true, "cmd/build_sample_md/build_sample_md": true, "cmd/build_sample_md/fc": true, "folang": true,
}

// NewBuild copies the working tree and builds what the caller asks for: "fc", "bsm" (build_sample_md).
func NewBuild(want ...string) *Build {
	t0 := time.Now()
	dir, err := os.MkdirTemp(scratchBase(), "fosim-")
	if err != nil {
		harnessFail("mktemp: %v", err)
	}
	b := &Build{Dir: dir, Repo: filepath.Join(dir, "repo"), Inst: filepath.Join(dir, "inst")}
	cleanups = append(cleanups, func() { os.RemoveAll(dir) })
	skip := func(rel string, isDir bool) bool {
		if rel == ".git" || rel == "temp" || strings.HasPrefix(rel, ".git/") {
			return true
		}
		return staleBinaries[rel]
	}
	if err := copyTree(repoDir, b.Repo, skip); err != nil {
		harnessFail("copy %s: %v", repoDir, err)
	}
	if err := copyTree(b.Repo, b.Inst, func(rel string, isDir bool) bool {
		top := strings.Split(rel, string(filepath.Separator))[0]
		return !(top == "fc" || top == "cmd" || top == "pkg" || top == "go.mod" || top == "go.sum")
	}); err != nil {
		harnessFail("copy inst: %v", err)
	}
	os.MkdirAll(filepath.Join(dir, "bin"), 0755)
	if len(want) > 0 {
		instrumentLibs(filepath.Join(b.Inst, "pkg"))
	}
	for _, w := range want {
		switch w {
		case "fc":
			b.FcOff = filepath.Join(dir, "bin", "fc.off")
			b.FcVerif = filepath.Join(dir, "bin", "fc.verif")
			b.goBuild(filepath.Join(b.Repo, "fc"), b.FcOff, false)
			instrumentDir(filepath.Join(b.Inst, "fc"), true)
			b.goBuild(filepath.Join(b.Inst, "fc"), b.FcVerif, true)
		case "bsm":
			b.BsmOff = filepath.Join(dir, "bin", "bsm.off")
			b.BsmVerif = filepath.Join(dir, "bin", "bsm.verif")
			b.goBuild(filepath.Join(b.Repo, "cmd", "build_sample_md"), b.BsmOff, false)
			instrumentDir(filepath.Join(b.Inst, "cmd", "build_sample_md"), false)
			b.goBuild(filepath.Join(b.Inst, "cmd", "build_sample_md"), b.BsmVerif, true)
		}
	}
	b.BuildS = time.Since(t0).Seconds()
	return b
}

func (b *Build) goBuild(dir, out string, verif bool) {
	args := []string{"build", "-o", out}
	if verif {
		args = append(args, "-tags", "verif")
	}
	args = append(args, ".")
	if o, err := runCmd(dir, goEnv(), "go", args...); err != nil {
		harnessFail("go build in %s failed: %v\n%s", dir, err, o)
	}
}

func (b *Build) Close() {
	os.RemoveAll(b.Dir)
}

// tickSource builds verif_tick.go for a main package that imports the given folang library packages.
func tickSource(libs []string) string {
	var imp, hook strings.Builder
	hasDict := false
	for _, l := range libs {
		if l == "sys" {
			continue
		}
		fmt.Fprintf(&imp, "\t\"github.com/karino2/folang/pkg/%s\"\n", l)
		if l == "dict" {
			hasDict = true
		}
		if instrumentedLibs[l] {
			fmt.Fprintf(&hook, "\t%s.VerifTick = verifTick\n", l)
		}
	}
	if hasDict {
		hook.WriteString("\tdict.VerifNow = sys.VerifNow\n")
	}
	return `package main

import (
	"time"

` + imp.String() + `	"github.com/karino2/folang/pkg/sys"
)

// Logical clock of the deterministic simulation: one tick per function entry and loop iteration, in package main
// and in the folang library packages it imports.
var verifTicks int64
var verifBudget int64

func verifTick() {
	verifTicks++
	if verifBudget > 0 && verifTicks > verifBudget {
		sys.VerifBudgetExceeded()
	}
}

func verifDone() { sys.VerifDone() }

func init() {
	sys.VerifNow = func() int64 { return verifTicks }
	verifBudget = sys.VerifTickBudget()
	verifNsPerTick = sys.VerifNsPerTick()
` + hook.String() + `}
` + tickClockSrc
}

// instrumentedLibs: library packages whose functions and loops tick as well (pkg/sys is the seam itself).
var instrumentedLibs = map[string]bool{"buf": true, "dict": true, "frt": true, "slice": true, "strings": true}

// instrumentLibs inserts VerifTick() at the head of every function and loop body of the library packages of the
// scratch copy and gives each package a VerifTick variable (a no-op until the instrumented program sets it), so a
// loop that does not terminate inside a library function exhausts the step budget like one in the program itself.
func instrumentLibs(pkgRoot string) {
	for lib := range instrumentedLibs {
		dir := filepath.Join(pkgRoot, lib)
		ents, err := os.ReadDir(dir)
		if err != nil {
			continue
		}
		pkgName := ""
		for _, e := range ents {
			name := e.Name()
			if e.IsDir() || !strings.HasSuffix(name, ".go") || strings.HasSuffix(name, "_test.go") || strings.Contains(name, "_verif") {
				continue
			}
			path := filepath.Join(dir, name)
			fset := token.NewFileSet()
			f, err := parser.ParseFile(fset, path, nil, 0)
			if err != nil {
				harnessFail("instrument: parse %s: %v", path, err)
			}
			pkgName = f.Name.Name
			ast.Inspect(f, func(n ast.Node) bool {
				switch x := n.(type) {
				case *ast.FuncDecl:
					if x.Body != nil {
						x.Body.List = append([]ast.Stmt{tickCall("VerifTick")}, x.Body.List...)
					}
				case *ast.FuncLit:
					x.Body.List = append([]ast.Stmt{tickCall("VerifTick")}, x.Body.List...)
				case *ast.ForStmt:
					x.Body.List = append([]ast.Stmt{tickCall("VerifTick")}, x.Body.List...)
				case *ast.RangeStmt:
					x.Body.List = append([]ast.Stmt{tickCall("VerifTick")}, x.Body.List...)
				}
				return true
			})
			var buf bytes.Buffer
			if err := format.Node(&buf, fset, f); err != nil {
				harnessFail("instrument: print %s: %v", path, err)
			}
			if err := os.WriteFile(path, buf.Bytes(), 0644); err != nil {
				harnessFail("instrument: write %s: %v", path, err)
			}
		}
		if pkgName != "" {
			src := "package " + pkgName + "\n\n// VerifTick is the logical clock of the deterministic simulation (set by the instrumented program).\nvar VerifTick = func() {}\n"
			if err := os.WriteFile(filepath.Join(dir, "zz_verif_tick.go"), []byte(src), 0644); err != nil {
				harnessFail("instrument: %v", err)
			}
		}
	}
}

// tickClockSrc: the simulated wall clock. Calls to time.Now / Since / Until / Sleep in package main are redirected
// here by the rewriter, so any deadline or timestamp in the program reads simulated time: ticks x the scenario's
// ns_per_tick (a "slow machine" is a large factor), plus whatever the program slept.
const tickClockSrc = `
var verifNsPerTick int64 = 1
var verifSlept int64

func verifTimeNow() time.Time {
	return time.Unix(1700000000, 0).Add(time.Duration(verifTicks*verifNsPerTick + verifSlept))
}
func verifTimeSince(t time.Time) time.Duration { return verifTimeNow().Sub(t) }
func verifTimeUntil(t time.Time) time.Duration { return t.Sub(verifTimeNow()) }
func verifTimeSleep(d time.Duration)           { verifSlept += int64(d) }
`

var timeRedirect = map[string]string{"Now": "verifTimeNow", "Since": "verifTimeSince", "Until": "verifTimeUntil", "Sleep": "verifTimeSleep"}

func tickCall(name string) ast.Stmt {
	return &ast.ExprStmt{X: &ast.CallExpr{Fun: ast.NewIdent(name)}}
}

// instrumentDir prepends verifTick() to every function body, function literal body and loop body of the
// non-test Go files of package main in dir, makes main() defer verifDone(), and adds verif_tick.go.
// A call statement at the head of a block cannot change what the block computes.
func instrumentDir(dir string, usesDict bool) {
	ents, err := os.ReadDir(dir)
	if err != nil {
		harnessFail("instrument: %v", err)
	}
	nFuncs, nLoops := 0, 0
	libsImported := map[string]bool{}
	for _, e := range ents {
		name := e.Name()
		if e.IsDir() || !strings.HasSuffix(name, ".go") || strings.HasSuffix(name, "_test.go") {
			continue
		}
		path := filepath.Join(dir, name)
		fset := token.NewFileSet()
		f, err := parser.ParseFile(fset, path, nil, 0)
		if err != nil {
			harnessFail("instrument: parse %s: %v", path, err)
		}
		if f.Name.Name != "main" {
			continue
		}
		for _, im := range f.Imports {
			if strings.HasPrefix(im.Path.Value, `"github.com/karino2/folang/pkg/`) {
				libsImported[strings.TrimSuffix(strings.TrimPrefix(im.Path.Value, `"github.com/karino2/folang/pkg/`), `"`)] = true
			}
		}
		ast.Inspect(f, func(n ast.Node) bool {
			switch x := n.(type) {
			case *ast.FuncDecl:
				if x.Body != nil {
					pre := []ast.Stmt{tickCall("verifTick")}
					if x.Recv == nil && x.Name.Name == "main" {
						pre = append(pre, &ast.DeferStmt{Call: &ast.CallExpr{Fun: ast.NewIdent("verifDone")}})
					}
					x.Body.List = append(pre, x.Body.List...)
					nFuncs++
				}
			case *ast.FuncLit:
				x.Body.List = append([]ast.Stmt{tickCall("verifTick")}, x.Body.List...)
				nFuncs++
			case *ast.ForStmt:
				x.Body.List = append([]ast.Stmt{tickCall("verifTick")}, x.Body.List...)
				nLoops++
			case *ast.RangeStmt:
				x.Body.List = append([]ast.Stmt{tickCall("verifTick")}, x.Body.List...)
				nLoops++
			}
			return true
		})
		// redirect the wall clock: time.Now() -> verifTimeNow() etc. (only where the package name time is the import)
		importsTime := false
		for _, im := range f.Imports {
			if im.Path.Value == `"time"` && im.Name == nil {
				importsTime = true
			}
		}
		if importsTime {
			replaced := false
			astReplaceTime(f, &replaced)
			if replaced {
				// keep the import used even if every use was redirected
				f.Decls = append(f.Decls, &ast.GenDecl{Tok: token.VAR, Specs: []ast.Spec{&ast.ValueSpec{
					Names: []*ast.Ident{ast.NewIdent("_")}, Type: &ast.SelectorExpr{X: ast.NewIdent("time"), Sel: ast.NewIdent("Duration")}}}})
			}
		}
		var buf bytes.Buffer
		if err := format.Node(&buf, fset, f); err != nil {
			harnessFail("instrument: print %s: %v", path, err)
		}
		if err := os.WriteFile(path, buf.Bytes(), 0644); err != nil {
			harnessFail("instrument: write %s: %v", path, err)
		}
	}
	src := tickSource(sortedKeys(libsImported))
	if err := os.WriteFile(filepath.Join(dir, "verif_tick.go"), []byte(src), 0644); err != nil {
		harnessFail("instrument: %v", err)
	}
	if nFuncs == 0 {
		harnessFail("instrument: no function found in %s", dir)
	}
}

// astReplaceTime rewrites call targets time.Now / Since / Until / Sleep to the simulated clock.
func astReplaceTime(f *ast.File, replaced *bool) {
	ast.Inspect(f, func(n ast.Node) bool {
		call, ok := n.(*ast.CallExpr)
		if !ok {
			return true
		}
		sel, ok := call.Fun.(*ast.SelectorExpr)
		if !ok {
			return true
		}
		x, ok := sel.X.(*ast.Ident)
		if !ok || x.Name != "time" {
			return true
		}
		if to, ok := timeRedirect[sel.Sel.Name]; ok {
			call.Fun = ast.NewIdent(to)
			*replaced = true
		}
		return true
	})
}
