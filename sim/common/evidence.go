package common

import (
	"encoding/json"
	"os"
	"path/filepath"
	"sort"
)

// Evidence is /verif/evidence/<id>.json (EVIDENCE.schema.json).
type Evidence struct {
	PropertyID  string         `json:"property_id"`
	Tier        string         `json:"tier"`
	Seed        int64          `json:"seed"`
	Level       string         `json:"level"`
	Coverage    map[string]any `json:"coverage"`
	Assumptions []string       `json:"assumptions"`
	WallS       float64        `json:"wall_s"`
	Violations  int            `json:"violations"`
}

func (e *Evidence) Write(path string) error {
	if err := os.MkdirAll(filepath.Dir(path), 0755); err != nil {
		return err
	}
	b, err := json.MarshalIndent(e, "", " ")
	if err != nil {
		return err
	}
	tmp := path + ".tmp"
	if err := os.WriteFile(tmp, append(b, '\n'), 0644); err != nil {
		return err
	}
	return os.Rename(tmp, path)
}

// Counter counts occurrences by name with deterministic output order.
type Counter map[string]int

func (c Counter) Add(k string, n int) { c[k] += n }

func (c Counter) Sorted() map[string]int { return c } // encoding/json sorts map keys

func (c Counter) Keys() []string {
	ks := make([]string, 0, len(c))
	for k := range c {
		ks = append(ks, k)
	}
	sort.Strings(ks)
	return ks
}

// Finding is one entry of /verif/known_findings.json.
type Finding struct {
	Property  string `json:"property"`
	Status    string `json:"status"` // "known" or "fixed"
	Signature string `json:"signature"`
	What      string `json:"what"`
	Replay    string `json:"replay,omitempty"`
	Commit    string `json:"commit,omitempty"`
}

func LoadFindings(path string) ([]Finding, error) {
	b, err := os.ReadFile(path)
	if err != nil {
		if os.IsNotExist(err) {
			return nil, nil
		}
		return nil, err
	}
	var fs []Finding
	if err := json.Unmarshal(b, &fs); err != nil {
		return nil, err
	}
	return fs, nil
}

// KnownFor returns the entry with status "known" whose signature equals sig for the property, if any.
// Entries with status "fixed" suppress nothing.
func KnownFor(fs []Finding, property, sig string) *Finding {
	for i := range fs {
		if fs[i].Property == property && fs[i].Status == "known" && fs[i].Signature == sig {
			return &fs[i]
		}
	}
	return nil
}
