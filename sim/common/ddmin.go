package common

// DDMin minimises a set of n items: test(keep) reports whether the failure persists when only the items
// whose indices are in keep (ascending) are retained. It returns a 1-minimal subset (no single item can
// be removed). test is never called with the full set first; the caller knows that one fails.
func DDMin(n int, test func(keep []int) bool) []int {
	cur := make([]int, n)
	for i := range cur {
		cur[i] = i
	}
	if n == 0 {
		return cur
	}
	if test(nil) {
		return nil
	}
	gran := 2
	for len(cur) >= 2 {
		chunk := (len(cur) + gran - 1) / gran
		reduced := false
		// try each complement
		for start := 0; start < len(cur); start += chunk {
			end := start + chunk
			if end > len(cur) {
				end = len(cur)
			}
			cand := append(append([]int{}, cur[:start]...), cur[end:]...)
			if len(cand) == len(cur) {
				continue
			}
			if test(cand) {
				cur = cand
				if gran > 2 {
					gran--
				}
				reduced = true
				break
			}
		}
		if reduced {
			continue
		}
		// try each subset
		if gran > 2 || true {
			for start := 0; start < len(cur); start += chunk {
				end := start + chunk
				if end > len(cur) {
					end = len(cur)
				}
				cand := append([]int{}, cur[start:end]...)
				if len(cand) == len(cur) || len(cand) == 0 {
					continue
				}
				if test(cand) {
					cur = cand
					gran = 2
					reduced = true
					break
				}
			}
		}
		if reduced {
			continue
		}
		if gran >= len(cur) {
			break
		}
		gran *= 2
		if gran > len(cur) {
			gran = len(cur)
		}
	}
	return cur
}
