// Package common holds what the process-level simulator (fosim) and the library history engine share:
// the one PRNG every choice is drawn from, ddmin, evidence and known-findings files.
package common

// Rng is splitmix64. Every random choice in /verif comes from one of these, seeded from VERIF_SEED.
type Rng struct{ s uint64 }

func NewRng(seed uint64) *Rng { return &Rng{s: seed} }

// Mix derives an independent stream seed from a seed and any number of stream identifiers.
func Mix(seed uint64, ids ...uint64) uint64 {
	r := Rng{s: seed}
	x := r.Next()
	for _, id := range ids {
		r.s = x ^ (id+1)*0xd1342543de82ef95
		x = r.Next()
	}
	return x
}

// MixS is Mix with a string identifier (FNV-1a of the text).
func MixS(seed uint64, s string) uint64 {
	h := uint64(14695981039346656037)
	for i := 0; i < len(s); i++ {
		h ^= uint64(s[i])
		h *= 1099511628211
	}
	return Mix(seed, h)
}

func (r *Rng) Next() uint64 {
	r.s += 0x9e3779b97f4a7c15
	z := r.s
	z = (z ^ (z >> 30)) * 0xbf58476d1ce4e5b9
	z = (z ^ (z >> 27)) * 0x94d049bb133111eb
	return z ^ (z >> 31)
}

// Intn returns a number in [0,n). n <= 0 gives 0.
func (r *Rng) Intn(n int) int {
	if n <= 0 {
		return 0
	}
	return int(r.Next() % uint64(n))
}

// Range returns a number in [lo,hi].
func (r *Rng) Range(lo, hi int) int {
	if hi <= lo {
		return lo
	}
	return lo + r.Intn(hi-lo+1)
}

// Chance is true with probability num/den.
func (r *Rng) Chance(num, den int) bool { return r.Intn(den) < num }

func (r *Rng) Float() float64 { return float64(r.Next()>>11) / float64(1<<53) }

// Pick returns one of the strings.
func (r *Rng) Pick(xs ...string) string { return xs[r.Intn(len(xs))] }

// Perm returns a random permutation of 0..n-1.
func (r *Rng) Perm(n int) []int {
	p := make([]int, n)
	for i := range p {
		p[i] = i
	}
	for i := n - 1; i > 0; i-- {
		j := r.Intn(i + 1)
		p[i], p[j] = p[j], p[i]
	}
	return p
}

// Fork gives a child generator whose stream does not depend on how much the parent is used afterwards.
func (r *Rng) Fork() *Rng { return NewRng(r.Next()) }
