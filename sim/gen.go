package main

import (
	"fmt"
	"sort"
	"strings"

	"fosim/common"
)

// ---- program generator (DESIGN 4.2): template-based, type-directed, with exact dependency records ----

type GT struct {
	K    string // int string bool unit slice tuple rec uni
	A, B *GT
	Name string // rec / uni name (with type argument text for generic instances in Arg)
	Arg  *GT    // type argument of a generic record/union instance
	Arg2 *GT    // second type argument (records with two type parameters)
}

var (
	tInt    = &GT{K: "int"}
	tString = &GT{K: "string"}
	tBool   = &GT{K: "bool"}
	tUnit   = &GT{K: "unit"}
)

func tSlice(e *GT) *GT    { return &GT{K: "slice", A: e} }
func tTuple(a, b *GT) *GT { return &GT{K: "tuple", A: a, B: b} }

func (t *GT) String() string {
	switch t.K {
	case "slice":
		if t.A.K == "tuple" {
			return "[](" + t.A.String() + ")"
		}
		return "[]" + t.A.String()
	case "tuple":
		return t.A.String() + "*" + t.B.String()
	case "rec", "uni":
		if t.Arg != nil && t.Arg2 != nil {
			return t.Name + "<" + t.Arg.String() + ", " + t.Arg2.String() + ">"
		}
		if t.Arg != nil {
			return t.Name + "<" + t.Arg.String() + ">"
		}
		return t.Name
	case "unit":
		return "()"
	case "tparam":
		return t.Name
	}
	return t.K
}

// hasTParam / substT: field and payload types of generic declarations may mention the declaration's own type
// parameters inside compound types ([]T, T*int, Opt<T>); an instance substitutes its arguments.
func hasTParam(t *GT) bool {
	if t == nil {
		return false
	}
	return t.K == "tparam" || hasTParam(t.A) || hasTParam(t.B) || hasTParam(t.Arg) || hasTParam(t.Arg2)
}

func substT(t, a1, a2 *GT) *GT {
	if t == nil {
		return nil
	}
	if t.K == "tparam" {
		if t.Name == "U" && a2 != nil {
			return a2
		}
		return a1
	}
	if !hasTParam(t) {
		return t
	}
	n := *t
	n.A, n.B, n.Arg, n.Arg2 = substT(t.A, a1, a2), substT(t.B, a1, a2), substT(t.Arg, a1, a2), substT(t.Arg2, a1, a2)
	return &n
}

func (t *GT) Eq(o *GT) bool { return t.String() == o.String() }

type gField struct {
	Name string
	T    *GT // nil: one of the record's type parameters
	TP   int // which one (0: T, 1: U)
}
type gRec struct {
	Name    string
	Fields  []gField
	Generic bool
	NParams int
	item    int
}

// fieldSetKey identifies the set of field names of a record (what an unqualified literal is resolved by).
func fieldSetKey(fs []gField) string {
	var ns []string
	for _, f := range fs {
		ns = append(ns, f.Name)
	}
	sort.Strings(ns)
	return strings.Join(ns, ",")
}
type gCase struct {
	Name    string
	Payload *GT // nil: no payload
	TParam  bool
}
type gUni struct {
	Name    string
	Cases   []gCase
	Generic bool
	item    int
}
type gFun struct {
	Name   string // as written at a call site (pkg-qualified for named package_info)
	Params []*GT
	Ret    *GT
	item   int
}
type gVar struct {
	Name string
	T    *GT
	item int // -1: local
}

type GItem struct {
	Kind string // header type let pinfo
	Name string
	Text string
	Refs []int // indices of the earlier items this one references (exact)
	// field-name sets of the records this item declares / of the unqualified record literals it contains: an
	// unqualified literal denotes the latest declared record with its field set, so items that declare and items
	// that use one and the same set must keep their relative order
	DeclSets []string
	UseSets  []string
}

type GenOpts struct {
	Items         int  // number of items after the header
	Ambiguous     bool // records may share their field-name set (C05 only)
	Reject        bool // plant one static error
	UnannotatedPm int  // per-mille chance a parameter annotation is dropped
	Poly          bool // polymorphic helper templates
	PkgInfo       bool
	Generic       bool
	LocalFuncs    bool
	MatchHeavy    bool
	Layout        int // 0 compact, 1 airy

	TypeGroups     bool // "type ... and ..." groups with forward references
	AndHeavy       bool // mostly type groups (many cumulative forward references)
	Collide        bool // user types take short names that also occur inside package_info blocks (Buffer, Dict, K, V ...)
	AmbiguousCases bool // unions may reuse the case names of an earlier union (C05 only)
	Shadow         bool // locals, parameters and pattern variables reuse the names of top-level definitions
	NestedGeneric  bool // records with two type parameters, generic instances as type arguments
}

type Gen struct {
	r     *common.Rng
	o     GenOpts
	recs  []*gRec
	unis  []*gUni
	funs  []*gFun
	vars  []*gVar
	items []GItem
	refs  map[int]bool
	seq   int
	tag   string // name prefix so that inserted items never clash with a base program

	collide     []string
	forwardRefs int // forward references inside type groups so far
	declSets    map[string]bool
	useSets     map[string]bool
	shadowPool  []string
	familyDone  bool
	qualDone    bool
}

func swarmOpts(r *common.Rng) GenOpts {
	return GenOpts{
		Items:         r.Range(1, 40),
		UnannotatedPm: []int{0, 0, 150, 400, 800}[r.Intn(5)],
		Poly:          r.Chance(1, 2),
		PkgInfo:       r.Chance(2, 3),
		Generic:       r.Chance(1, 2),
		LocalFuncs:    r.Chance(1, 2),
		MatchHeavy:    r.Chance(1, 2),
		Layout:        r.Intn(2),
		TypeGroups:    r.Chance(1, 2),
		AndHeavy:      r.Chance(1, 12),
		Collide:       r.Chance(1, 4),
		Shadow:        r.Chance(1, 3),
		NestedGeneric: r.Chance(1, 2),
	}
}

func newGen(r *common.Rng, o GenOpts, tag string) *Gen {
	g := &Gen{r: r, o: o, tag: tag, refs: map[int]bool{}, declSets: map[string]bool{}, useSets: map[string]bool{}}
	if o.Shadow {
		g.shadowPool = []string{"limit", "acc", "x", "v", "s", "n", "item", "cur", "res", "tmp"}
	}
	if o.Collide && tag == "" {
		// short names that also occur inside the package_info blocks of pkg_all.foi (type parameters, external types)
		// ... and the names fc gives the type parameters it introduces itself (T0, T1, ...)
		g.collide = []string{"Buffer", "Dict", "K", "V", "S", "Item", "Node", "T0", "T1", "T2"}
		if !o.Generic {
			g.collide = append(g.collide, "T", "U")
		}
	}
	return g
}

// typeName gives a fresh type name; with the Collide knob some come from the pool of colliding short names.
func (g *Gen) typeName(prefix string) string {
	if len(g.collide) > 0 && g.r.Chance(1, 2) {
		i := g.r.Intn(len(g.collide))
		n := g.collide[i]
		g.collide = append(g.collide[:i], g.collide[i+1:]...)
		return n
	}
	return g.fresh(prefix)
}

func (g *Gen) fresh(prefix string) string {
	g.seq++
	return fmt.Sprintf("%s%s%d", prefix, g.tag, g.seq)
}

func (g *Gen) use(item int) {
	if item >= 0 {
		g.refs[item] = true
	}
}

func (g *Gen) push(kind, name, text string) int {
	var refs []int
	for k := range g.refs {
		if k != len(g.items) { // a type group refers to itself; that is not a dependency on another item
			refs = append(refs, k)
		}
	}
	sort.Ints(refs)
	g.refs = map[int]bool{}
	it := GItem{Kind: kind, Name: name, Text: text, Refs: refs, DeclSets: sortedKeys(g.declSets), UseSets: sortedKeys(g.useSets)}
	g.declSets, g.useSets = map[string]bool{}, map[string]bool{}
	g.items = append(g.items, it)
	return len(g.items) - 1
}

const genHeader = "package main\n\nimport frt\nimport slice\nimport strings\n\n"

// ---- types ----

func (g *Gen) randType(depth int) *GT {
	n := g.r.Intn(12)
	switch {
	case n < 3:
		return tInt
	case n < 5:
		return tString
	case n < 6:
		return tBool
	case n < 7 && depth > 0:
		return tSlice(g.randType(0))
	case n < 8 && depth > 0:
		return tTuple(g.randType(0), g.randType(0))
	case n < 10 && len(g.recs) > 0:
		rc := g.recs[g.r.Intn(len(g.recs))]
		if rc.Generic {
			t := &GT{K: "rec", Name: rc.Name, Arg: g.argType(depth)}
			if rc.NParams == 2 {
				t.Arg2 = g.argType(depth)
			}
			return t
		}
		return &GT{K: "rec", Name: rc.Name}
	case n < 12 && len(g.unis) > 0:
		u := g.unis[g.r.Intn(len(g.unis))]
		if u.Generic {
			return &GT{K: "uni", Name: u.Name, Arg: g.baseType()}
		}
		return &GT{K: "uni", Name: u.Name}
	}
	return g.baseType()
}

// argType: a type argument. Mostly base types; with the NestedGeneric knob also instances of generic records
// (Box<Pair<int, string>>), which differ only in their inner arguments.
func (g *Gen) argType(depth int) *GT {
	if g.o.NestedGeneric && depth > 0 && g.r.Chance(1, 2) {
		var gen []*gRec
		for _, rc := range g.recs {
			if rc.Generic {
				gen = append(gen, rc)
			}
		}
		if len(gen) > 0 {
			rc := gen[g.r.Intn(len(gen))]
			t := &GT{K: "rec", Name: rc.Name, Arg: g.baseType()}
			if rc.NParams == 2 {
				t.Arg2 = g.baseType()
			}
			return t
		}
	}
	return g.baseType()
}

func (g *Gen) baseType() *GT {
	return []*GT{tInt, tString, tBool, tInt, tString}[g.r.Intn(5)]
}

func (g *Gen) findRec(name string) *gRec {
	for _, r := range g.recs {
		if r.Name == name {
			return r
		}
	}
	return nil
}
func (g *Gen) findUni(name string) *gUni {
	for _, u := range g.unis {
		if u.Name == name {
			return u
		}
	}
	return nil
}

func (g *Gen) useType(t *GT) {
	switch t.K {
	case "rec":
		g.use(g.findRec(t.Name).item)
	case "uni":
		g.use(g.findUni(t.Name).item)
	case "slice":
		g.useType(t.A)
	case "tuple":
		g.useType(t.A)
		g.useType(t.B)
	}
	if t.Arg != nil {
		g.useType(t.Arg)
	}
	if t.Arg2 != nil {
		g.useType(t.Arg2)
	}
}

func fieldType(rc *gRec, f gField, inst *GT) *GT {
	if f.T == nil {
		if f.TP == 1 {
			return inst.Arg2
		}
		return inst.Arg
	}
	if hasTParam(f.T) {
		return substT(f.T, inst.Arg, inst.Arg2)
	}
	return f.T
}

// paramType: a compound type over the type parameter T of the generic declaration being generated.
func (g *Gen) paramType() *GT {
	tp := &GT{K: "tparam", Name: "T"}
	switch g.r.Intn(5) {
	case 0:
		return tSlice(tp)
	case 1:
		return tTuple(tp, g.baseType())
	case 2, 3:
		var cands []*GT
		for _, u := range g.unis {
			if u.Generic {
				cands = append(cands, &GT{K: "uni", Name: u.Name, Arg: tp})
			}
		}
		for _, rc := range g.recs {
			if rc.Generic && rc.NParams == 1 {
				cands = append(cands, &GT{K: "rec", Name: rc.Name, Arg: tp})
			}
		}
		if len(cands) > 0 {
			return cands[g.r.Intn(len(cands))]
		}
	}
	return tSlice(tp)
}

// ---- expressions ----

type scope struct {
	vars []*gVar
}

func (s *scope) with(v ...*gVar) *scope {
	return &scope{vars: append(append([]*gVar{}, s.vars...), v...)}
}

func (env *scope) has(name string) bool {
	for _, v := range env.vars {
		if v.Name == name {
			return true
		}
	}
	return false
}

// visible: innermost binding wins; a local hides an outer local and a top-level definition of the same name.
func (g *Gen) visible(env *scope) []*gVar {
	var out []*gVar
	seen := map[string]bool{}
	for i := len(env.vars) - 1; i >= 0; i-- {
		v := env.vars[i]
		if !seen[v.Name] {
			seen[v.Name] = true
			out = append(out, v)
		}
	}
	for _, v := range g.vars {
		if !seen[v.Name] {
			out = append(out, v)
		}
	}
	return out
}

func (g *Gen) varsOf(t *GT, env *scope) []*gVar {
	var out []*gVar
	for _, v := range g.visible(env) {
		if v.T.Eq(t) {
			out = append(out, v)
		}
	}
	return out
}

// localName names a parameter, local, lambda parameter or pattern variable. With the Shadow knob it may take the
// name of a top-level definition (or a name a later top-level definition will take): scoping must keep them apart.
func (g *Gen) localName(prefix string, env *scope) string {
	if g.o.Shadow && g.r.Chance(1, 3) {
		var cands []string
		for _, v := range g.vars {
			cands = append(cands, v.Name)
		}
		for _, f := range g.funs {
			if !strings.Contains(f.Name, ".") {
				cands = append(cands, f.Name)
			}
		}
		cands = append(cands, g.shadowPool...)
		var free []string
		for _, n := range cands {
			if !env.has(n) {
				free = append(free, n)
			}
		}
		if len(free) > 0 {
			return free[g.r.Intn(len(free))]
		}
	}
	return g.fresh(prefix)
}

func (g *Gen) intLit() string { return fmt.Sprint(g.r.Intn(100)) }
func (g *Gen) strLit() string {
	return `"` + g.r.Pick("a", "bc", "hello", "x y", "", "k1", "%d", "a,b", "Z") + `"`
}

// atom returns an expression that can stand as a function argument.
func (g *Gen) atom(t *GT, env *scope, d int) string {
	e := g.expr(t, env, d)
	if isAtomic(e) {
		return e
	}
	return "(" + e + ")"
}

func isAtomic(e string) bool {
	if e == "" {
		return false
	}
	if e[0] == '(' && matchingClose(e, 0) == len(e)-1 {
		return true
	}
	if e[0] == '[' && matchingClose(e, 0) == len(e)-1 {
		return true
	}
	if e[0] == '{' && matchingClose(e, 0) == len(e)-1 {
		return true
	}
	if e[0] == '"' && strings.Count(e, `"`) == 2 {
		return true
	}
	for i := 0; i < len(e); i++ {
		if !(isIdentChar(e[i]) || e[i] == '.') {
			return false
		}
	}
	return true
}

func matchingClose(e string, at int) int {
	depth := 0
	inStr := false
	for i := at; i < len(e); i++ {
		c := e[i]
		if inStr {
			if c == '\\' {
				i++
			} else if c == '"' {
				inStr = false
			}
			continue
		}
		switch c {
		case '"':
			inStr = true
		case '(', '[', '{':
			depth++
		case ')', ']', '}':
			depth--
			if depth == 0 {
				return i
			}
		}
	}
	return -1
}

func (g *Gen) callOf(t *GT, env *scope, d int) (string, bool) {
	var cands []*gFun
	for _, f := range g.funs {
		if f.Ret.Eq(t) && !env.has(f.Name) {
			cands = append(cands, f)
		}
	}
	if len(cands) == 0 {
		return "", false
	}
	f := cands[g.r.Intn(len(cands))]
	g.use(f.item)
	if len(f.Params) == 0 {
		return f.Name + " ()", true
	}
	parts := []string{f.Name}
	for _, p := range f.Params {
		parts = append(parts, g.atom(p, env, d-1))
	}
	return strings.Join(parts, " "), true
}

func (g *Gen) expr(t *GT, env *scope, d int) string {
	vs := g.varsOf(t, env)
	if len(vs) > 0 && (d <= 0 || g.r.Chance(2, 5)) {
		v := vs[g.r.Intn(len(vs))]
		g.use(v.item)
		return v.Name
	}
	if d > 0 && g.r.Chance(1, 4) {
		if e, ok := g.callOf(t, env, d); ok {
			return e
		}
	}
	if d > 0 && g.r.Chance(1, 10) {
		c := g.expr(tBool, env, d-1)
		return "if " + c + " then " + g.expr(t, env, d-1) + " else " + g.expr(t, env, d-1)
	}
	// field access through a record-typed variable
	if d > 0 && g.r.Chance(1, 4) {
		for _, v := range g.visible(env) {
			if v.T.K != "rec" {
				continue
			}
			rc := g.findRec(v.T.Name)
			for _, f := range rc.Fields {
				if fieldType(rc, f, v.T).Eq(t) && g.r.Chance(1, 2) {
					g.use(v.item)
					g.use(rc.item)
					return v.Name + "." + f.Name
				}
			}
		}
	}
	switch t.K {
	case "int":
		if d <= 0 {
			return g.intLit()
		}
		switch g.r.Intn(9) {
		case 0, 1:
			return g.atomOrBin(tInt, env, d) + " " + g.r.Pick("+", "-", "*", "+") + " " + g.atomOrBin(tInt, env, d)
		case 2:
			return "strings.Length " + g.atom(tString, env, d-1)
		case 3:
			return "slice.Length " + g.atom(tSlice(g.baseType()), env, d-1)
		case 4:
			return "frt.Fst " + g.atom(tTuple(tInt, g.baseType()), env, d-1)
		case 5:
			return "slice.Head " + g.atom(tSlice(tInt), env, d-1)
		case 6:
			return g.atom(tSlice(tInt), env, d-1) + " |> slice.Length"
		}
		return g.intLit()
	case "string":
		if d <= 0 {
			return g.strLit()
		}
		switch g.r.Intn(8) {
		case 0:
			return g.atomOrBin(tString, env, d) + " + " + g.atomOrBin(tString, env, d)
		case 1:
			return `frt.Sprintf1 "%d" ` + g.atom(tInt, env, d-1)
		case 2:
			var names []string
			for _, v := range g.visible(env) {
				if v.item == -1 && (v.T.K == "int" || v.T.K == "string") {
					names = append(names, v.Name)
				}
			}
			if len(names) > 0 {
				// one to four holes; a variable may occur several times in one literal
				var sb strings.Builder
				sb.WriteString(`$"` + g.r.Pick("v=", "", "x "))
				for h, nh := 0, g.r.Range(1, 4); h < nh; h++ {
					if h > 0 {
						sb.WriteString(g.r.Pick("+", ", ", " ", "="))
					}
					sb.WriteString("{" + names[g.r.Intn(len(names))] + "}")
				}
				sb.WriteString(g.r.Pick("", "!", " end") + `"`)
				return sb.String()
			}
		case 3:
			return `strings.Concat ", " ` + g.atom(tSlice(tString), env, d-1)
		case 4:
			return "frt.Snd " + g.atom(tTuple(g.baseType(), tString), env, d-1)
		case 5:
			return g.atom(tString, env, d-1) + " |> strings.AppendTail " + g.strLit()
		}
		return g.strLit()
	case "bool":
		if d <= 0 {
			return g.r.Pick("true", "false")
		}
		switch g.r.Intn(9) {
		case 0, 1:
			return g.atomOrBin(tInt, env, d) + " " + g.r.Pick("<", ">", "<=", ">=", "=", "<>") + " " + g.atomOrBin(tInt, env, d)
		case 2:
			return g.atom(tString, env, d-1) + " " + g.r.Pick("=", "<>") + " " + g.atom(tString, env, d-1)
		case 3:
			return g.atom(tBool, env, d-1) + " " + g.r.Pick("&&", "||") + " " + g.atom(tBool, env, d-1)
		case 4:
			return "not " + g.atom(tBool, env, d-1)
		case 5:
			return "strings.HasPrefix " + g.strLit() + " " + g.atom(tString, env, d-1)
		case 6:
			return "slice.IsEmpty " + g.atom(tSlice(g.baseType()), env, d-1)
		}
		return g.r.Pick("true", "false")
	case "slice":
		if d <= 0 {
			if t.A.K == "int" || t.A.K == "string" || t.A.K == "bool" {
				return "[" + g.expr(t.A, env, 0) + "]"
			}
			g.useType(t.A)
			return "slice.New<" + t.A.String() + "> ()"
		}
		switch g.r.Intn(8) {
		case 0:
			src := g.baseType()
			x := &gVar{Name: g.localName("x", env), T: src, item: -1}
			return "slice.Map (fun " + x.Name + " -> " + g.expr(t.A, env.with(x), d-1) + ") " + g.atom(tSlice(src), env, d-1)
		case 1:
			x := &gVar{Name: g.localName("x", env), T: t.A, item: -1}
			return "slice.Filter (fun " + x.Name + " -> " + g.expr(tBool, env.with(x), d-1) + ") " + g.atom(t, env, d-1)
		case 2:
			return g.atom(t, env, d-1) + " |> slice.Take " + fmt.Sprint(g.r.Intn(3))
		case 3:
			return "slice.PushLast " + g.atom(t.A, env, d-1) + " " + g.atom(t, env, d-1)
		case 4:
			return "slice.Append " + g.atom(t, env, d-1) + " " + g.atom(t, env, d-1)
		case 5:
			x := &gVar{Name: g.localName("x", env), T: t.A, item: -1}
			return g.atom(t, env, d-1) + " |> slice.Filter (fun " + x.Name + " -> " + g.expr(tBool, env.with(x), d-1) + ") |> slice.Tail"
		}
		n := g.r.Range(1, 3)
		var el []string
		for i := 0; i < n; i++ {
			el = append(el, g.expr(t.A, env, d-1))
		}
		return "[" + strings.Join(el, "; ") + "]"
	case "tuple":
		return "(" + g.expr(t.A, env, d-1) + ", " + g.expr(t.B, env, d-1) + ")"
	case "rec":
		rc := g.findRec(t.Name)
		g.use(rc.item)
		key := fieldSetKey(rc.Fields)
		// an unqualified literal denotes the latest declared record with this field set; say Rec.Field= otherwise
		qualify := false
		for _, o := range g.recs {
			if o != rc && o.item >= rc.item && fieldSetKey(o.Fields) == key {
				qualify = true
			}
		}
		if !qualify {
			g.useSets[key] = true
		}
		var fs []string
		for i, f := range rc.Fields {
			fn := f.Name
			if qualify && i == 0 {
				fn = rc.Name + "." + fn
			}
			fs = append(fs, fn+"="+g.expr(fieldType(rc, f, t), env, d-1))
		}
		return "{" + strings.Join(fs, "; ") + "}"
	case "uni":
		u := g.findUni(t.Name)
		g.use(u.item)
		// pick a case that can be built at this instance
		var cs []gCase
		for _, c := range u.Cases {
			if u.Generic && c.Payload == nil && !c.TParam {
				continue // a payload-less case of a generic union needs a type annotation fc cannot infer here
			}
			cs = append(cs, c)
		}
		if d <= 0 {
			var leaf []gCase
			for _, c := range cs {
				if !c.TParam && (c.Payload == nil || c.Payload.K == "int" || c.Payload.K == "string" || c.Payload.K == "bool") {
					leaf = append(leaf, c)
				}
			}
			if len(leaf) > 0 {
				cs = leaf
			}
		}
		c := cs[g.r.Intn(len(cs))]
		if c.TParam {
			return c.Name + " " + g.atom(t.Arg, env, d-1)
		}
		if c.Payload == nil {
			return c.Name
		}
		return c.Name + " " + g.atom(substT(c.Payload, t.Arg, t.Arg2), env, d-1)
	case "unit":
		return "()"
	}
	return "0"
}

// atomOrBin: operand of a binary operator; parenthesised unless atomic or an application.
func (g *Gen) atomOrBin(t *GT, env *scope, d int) string {
	return g.atom(t, env, d-1)
}

// ---- statements and bodies ----

func ind(n int) string { return strings.Repeat(" ", n) }

// body returns the lines of a block of type t at the given indentation.
func (g *Gen) body(t *GT, env *scope, indent int, d int) []string {
	var lines []string
	nst := g.r.Intn(4)
	if d <= 0 {
		nst = g.r.Intn(2)
	}
	for i := 0; i < nst; i++ {
		switch g.r.Intn(7) {
		case 0, 1, 2:
			vt := g.randType(1)
			g.useType(vt)
			v := &gVar{Name: g.localName("v", env), T: vt, item: -1}
			lines = append(lines, ind(indent)+"let "+v.Name+" = "+g.expr(vt, env, 2))
			env = env.with(v)
		case 3:
			a, b := g.baseType(), g.baseType()
			va := &gVar{Name: g.localName("a", env), T: a, item: -1}
			vb := &gVar{Name: g.localName("b", env), T: b, item: -1}
			lhs := "(" + va.Name + ", " + vb.Name + ")"
			if g.r.Chance(1, 4) {
				lhs = "(" + va.Name + ", _)"
				lines = append(lines, ind(indent)+"let "+lhs+" = "+g.expr(tTuple(a, b), env, 2))
				env = env.with(va)
			} else {
				lines = append(lines, ind(indent)+"let "+lhs+" = "+g.expr(tTuple(a, b), env, 2))
				env = env.with(va, vb)
			}
		case 4:
			if g.r.Chance(1, 2) {
				lines = append(lines, ind(indent)+`frt.Printf1 "%d\n" `+g.atom(tInt, env, 1))
			} else {
				lines = append(lines, ind(indent)+"frt.Println "+g.atom(tString, env, 1))
			}
		case 5:
			if g.o.LocalFuncs && d > 0 {
				pt, rt := g.baseType(), g.baseType()
				p := &gVar{Name: g.localName("p", env), T: pt, item: -1}
				fn := g.fresh("lf")
				lines = append(lines, ind(indent)+"let "+fn+" ("+p.Name+":"+pt.String()+") =")
				lines = append(lines, g.body(rt, env.with(p), indent+2, 0)...)
				// use it once
				v := &gVar{Name: g.localName("v", env), T: rt, item: -1}
				lines = append(lines, ind(indent)+"let "+v.Name+" = "+fn+" "+g.atom(pt, env, 1))
				env = env.with(v)
			}
		case 6:
			if d > 0 {
				vt := g.baseType()
				v := &gVar{Name: g.localName("v", env), T: vt, item: -1}
				lines = append(lines, ind(indent)+"let "+v.Name+" =")
				lines = append(lines, g.final(vt, env, indent+2, d-1)...)
				env = env.with(v)
			}
		}
		if g.o.Layout == 1 && g.r.Chance(1, 5) {
			lines = append(lines, ind(indent)+"// "+g.r.Pick("note", "step", "let x = 1"))
		}
	}
	return append(lines, g.final(t, env, indent, d)...)
}

// final produces the last expression of a block, possibly a multi-line construct.
func (g *Gen) final(t *GT, env *scope, indent int, d int) []string {
	if t.K == "unit" {
		if g.r.Chance(1, 2) {
			return []string{ind(indent) + `frt.Printf1 "%d\n" ` + g.atom(tInt, env, 1)}
		}
		return []string{ind(indent) + "frt.Println " + g.atom(tString, env, 1)}
	}
	k := g.r.Intn(10)
	if d <= 0 {
		k = 9
	}
	switch {
	case k < 3 || (g.o.MatchHeavy && k < 5):
		// union match on a variable in scope (or a constructed value)
		var uv []*gVar
		for _, v := range g.visible(env) {
			if v.T.K == "uni" {
				uv = append(uv, v)
			}
		}
		if len(uv) > 0 {
			v := uv[g.r.Intn(len(uv))]
			g.use(v.item)
			return g.unionMatch(v.Name, v.T, t, env, indent, d)
		}
		if len(g.unis) > 0 {
			u := g.unis[g.r.Intn(len(g.unis))]
			if !u.Generic {
				ut := &GT{K: "uni", Name: u.Name}
				return g.unionMatch(g.atom(ut, env, 1), ut, t, env, indent, d)
			}
		}
	case k < 6:
		c := g.expr(tBool, env, 2)
		lines := []string{ind(indent) + "if " + c + " then"}
		lines = append(lines, g.body(t, env, indent+2, d-1)...)
		if g.r.Chance(1, 3) {
			lines = append(lines, ind(indent)+"elif "+g.expr(tBool, env, 1)+" then")
			lines = append(lines, g.body(t, env, indent+2, 0)...)
		}
		lines = append(lines, ind(indent)+"else")
		lines = append(lines, g.body(t, env, indent+2, d-1)...)
		return lines
	case k < 7:
		sv := g.varsOf(tString, env)
		if len(sv) > 0 {
			v := sv[g.r.Intn(len(sv))]
			g.use(v.item)
			lines := []string{ind(indent) + "match " + v.Name + " with"}
			n := g.r.Range(1, 3)
			seen := map[string]bool{}
			for i := 0; i < n; i++ {
				l := g.strLit()
				if seen[l] {
					continue
				}
				seen[l] = true
				lines = append(lines, ind(indent)+"| "+l+" -> "+g.expr(t, env, 1))
			}
			if g.r.Chance(1, 2) {
				w := &gVar{Name: g.localName("w", env), T: tString, item: -1}
				lines = append(lines, ind(indent)+"| "+w.Name+" -> "+g.expr(t, env.with(w), 1))
			} else {
				lines = append(lines, ind(indent)+"| _ -> "+g.expr(t, env, 1))
			}
			return lines
		}
	case k < 8:
		if t.K == "slice" {
			x := &gVar{Name: g.localName("x", env), T: t.A, item: -1}
			return []string{ind(indent) + g.atom(t, env, 1),
				ind(indent) + "|> slice.Filter (fun " + x.Name + " -> " + g.expr(tBool, env.with(x), 1) + ")",
				ind(indent) + "|> slice.Tail"}
		}
	}
	return []string{ind(indent) + g.expr(t, env, 3)}
}

func (g *Gen) unionMatch(target string, ut *GT, t *GT, env *scope, indent int, d int) []string {
	u := g.findUni(ut.Name)
	g.use(u.item)
	lines := []string{ind(indent) + "match " + target + " with"}
	order := g.r.Perm(len(u.Cases))
	covered := len(order)
	useDefault := g.r.Chance(1, 3)
	if useDefault && covered > 1 {
		covered = g.r.Range(1, covered-1)
	}
	for _, ci := range order[:covered] {
		c := u.Cases[ci]
		pt := substT(c.Payload, ut.Arg, ut.Arg2)
		if c.TParam {
			pt = ut.Arg
		}
		head := "| " + c.Name
		sub := env
		if pt != nil {
			if g.r.Chance(1, 4) {
				head += " _"
			} else {
				pv := &gVar{Name: g.localName("m", env), T: pt, item: -1}
				head += " " + pv.Name
				sub = env.with(pv)
			}
		}
		if d > 0 && g.r.Chance(1, 4) {
			lines = append(lines, ind(indent)+head+" ->")
			lines = append(lines, g.body(t, sub, indent+2, d-1)...)
		} else {
			lines = append(lines, ind(indent)+head+" -> "+g.expr(t, sub, 2))
		}
	}
	if useDefault {
		lines = append(lines, ind(indent)+"| _ -> "+g.expr(t, env, 1))
	}
	return lines
}

// ---- top-level items ----

func (g *Gen) itemRecord() {
	name := g.typeName("R")
	rc := &gRec{Name: name}
	n := g.r.Range(1, 4)
	generic := g.o.Generic && g.r.Chance(1, 4)
	var fs []string
	// ambiguous knob: reuse the field-name set of an earlier non-generic record
	if g.o.Ambiguous && len(g.recs) > 0 && g.r.Chance(1, 2) {
		src := g.recs[g.r.Intn(len(g.recs))]
		if !src.Generic {
			for _, k := range g.r.Perm(len(src.Fields)) { // same set, declaration order need not be the same
				f := src.Fields[k]
				rc.Fields = append(rc.Fields, f)
				g.useType(f.T)
				fs = append(fs, f.Name+": "+f.T.String())
			}
			rc.item = len(g.items)
			g.recs = append(g.recs, rc)
			g.declSets[fieldSetKey(rc.Fields)] = true
			g.push("type", name, "type "+name+" = {"+strings.Join(fs, "; ")+"}\n\n")
			return
		}
	}
	two := generic && g.o.NestedGeneric && g.r.Chance(1, 2)
	if two && n < 2 {
		n = 2
	}
	order := g.r.Perm(n) // field names need not be declared in alphabetical order
	for _, i := range order {
		fn := fmt.Sprintf("%sF%d", name, i)
		if generic && i == 0 {
			rc.Fields = append(rc.Fields, gField{Name: fn})
			fs = append(fs, fn+": T")
			continue
		}
		if two && i == 1 {
			rc.Fields = append(rc.Fields, gField{Name: fn, TP: 1})
			fs = append(fs, fn+": U")
			continue
		}
		ft := g.randType(1)
		if generic && g.o.NestedGeneric && g.r.Chance(1, 2) {
			ft = g.paramType() // []T, T*int, Opt<T>, Box<T>: the parameter flows through another type
		}
		g.useType(ft)
		rc.Fields = append(rc.Fields, gField{Name: fn, T: ft})
		fs = append(fs, fn+": "+ft.String())
	}
	rc.Generic = generic
	rc.item = len(g.items)
	g.declSets[fieldSetKey(rc.Fields)] = true
	hd := "type " + name
	if generic {
		rc.NParams = 1
		hd += "<T>"
		if two {
			rc.NParams = 2
			hd = "type " + name + "<T, U>"
		}
	}
	var text string
	if g.r.Chance(1, 3) {
		text = hd + " = {\n  " + strings.Join(fs, ";\n  ") + ";\n}\n\n"
	} else {
		text = hd + " = {" + strings.Join(fs, "; ") + "}\n\n"
	}
	g.recs = append(g.recs, rc)
	g.push("type", name, text)
}

func (g *Gen) itemUnion() {
	name := g.typeName("U")
	u := &gUni{Name: name, item: len(g.items)}
	u.Generic = g.o.Generic && g.r.Chance(1, 5)
	n := g.r.Range(1, 5)
	hd := "type " + name
	if u.Generic {
		hd += "<T>"
	}
	lines := []string{hd + " ="}
	var reuse *gUni
	if g.o.AmbiguousCases && !u.Generic && len(g.unis) > 0 && g.r.Chance(1, 2) {
		if cand := g.unis[g.r.Intn(len(g.unis))]; !cand.Generic {
			reuse = cand
			n = len(cand.Cases)
		}
	}
	for i := 0; i < n; i++ {
		cn := fmt.Sprintf("%sC%d", name, i)
		if reuse != nil {
			c := reuse.Cases[i]
			u.Cases = append(u.Cases, c)
			if c.Payload == nil {
				lines = append(lines, "  | "+c.Name)
			} else {
				g.useType(c.Payload)
				lines = append(lines, "  | "+c.Name+" of "+c.Payload.String())
			}
			continue
		}
		switch {
		case u.Generic && i == 0:
			u.Cases = append(u.Cases, gCase{Name: cn, TParam: true})
			lines = append(lines, "  | "+cn+" of T")
		case g.r.Chance(1, 3):
			u.Cases = append(u.Cases, gCase{Name: cn})
			lines = append(lines, "  | "+cn)
		case u.Generic && g.o.NestedGeneric && g.r.Chance(1, 3):
			pt := g.paramType()
			if pt.K == "tuple" {
				pt = tSlice(&GT{K: "tparam", Name: "T"})
			}
			g.useType(pt)
			u.Cases = append(u.Cases, gCase{Name: cn, Payload: pt})
			lines = append(lines, "  | "+cn+" of "+pt.String())
		default:
			pt := g.randType(1)
			if pt.K == "tuple" { // payload tuples need parentheses in some positions; keep them simple
				pt = g.baseType()
			}
			g.useType(pt)
			u.Cases = append(u.Cases, gCase{Name: cn, Payload: pt})
			lines = append(lines, "  | "+cn+" of "+pt.String())
		}
	}
	g.unis = append(g.unis, u)
	g.push("type", name, strings.Join(lines, "\n")+"\n\n")
}

func (g *Gen) itemPkgInfo() {
	pkg := "_"
	if g.r.Chance(1, 2) {
		pkg = g.fresh("ext")
	}
	item := len(g.items)
	lines := []string{"package_info " + pkg + " ="}
	n := g.r.Range(1, 6)
	for i := 0; i < n; i++ {
		fn := g.fresh("Ext")
		np := g.r.Range(1, 3)
		f := &gFun{Name: fn, item: item}
		if pkg != "_" {
			f.Name = pkg + "." + fn
		}
		var sig []string
		for j := 0; j < np; j++ {
			pt := g.randType(1)
			g.useType(pt)
			f.Params = append(f.Params, pt)
			s := pt.String()
			if pt.K == "tuple" {
				s = "(" + s + ")"
			}
			sig = append(sig, s)
		}
		f.Ret = g.randType(1)
		g.useType(f.Ret)
		rs := f.Ret.String()
		sig = append(sig, rs)
		lines = append(lines, "  let "+fn+": "+strings.Join(sig, "->"))
		g.funs = append(g.funs, f)
	}
	if g.r.Chance(1, 3) {
		lines = append(lines, "  type "+g.fresh("ExtT"))
	}
	g.push("pinfo", pkg, strings.Join(lines, "\n")+"\n\n")
}

func (g *Gen) itemVar() {
	t := []*GT{tInt, tString, tSlice(tInt), tBool}[g.r.Intn(4)]
	name := g.fresh("gv")
	if len(g.shadowPool) > 0 && g.r.Chance(1, 2) {
		i := g.r.Intn(len(g.shadowPool))
		name = g.shadowPool[i]
		g.shadowPool = append(g.shadowPool[:i], g.shadowPool[i+1:]...)
	}
	text := "let " + name + " = " + g.expr(t, &scope{}, 1) + "\n\n"
	if g.r.Chance(1, 3) {
		// a top-level value computed by a block: match rules and nested lets at the root bind pattern variables and
		// locals that must not outlive the definition
		text = "let " + name + " =\n" + strings.Join(g.final(t, &scope{}, 2, 1), "\n") + "\n\n"
	}
	item := len(g.items)
	g.push("let", name, text)
	g.vars = append(g.vars, &gVar{Name: name, T: t, item: item})
}

func (g *Gen) itemFunc() {
	name := g.fresh("f")
	np := g.r.Intn(4)
	f := &gFun{Name: name, item: len(g.items)}
	env := &scope{}
	hd := "let " + name
	if np == 0 {
		hd += " ()"
	}
	for i := 0; i < np; i++ {
		pt := g.randType(1)
		g.useType(pt)
		p := &gVar{Name: g.localName("p", env), T: pt, item: -1}
		env = env.with(p)
		f.Params = append(f.Params, pt)
		if g.r.Intn(1000) < g.o.UnannotatedPm && pt.K != "rec" && pt.K != "uni" {
			hd += " " + p.Name
		} else if g.r.Chance(1, 6) {
			hd += " (" + p.Name + ": " + pt.String() + ")"
		} else {
			hd += " (" + p.Name + ":" + pt.String() + ")"
		}
	}
	f.Ret = g.randType(1)
	if g.r.Chance(1, 8) {
		f.Ret = tUnit
	}
	g.useType(f.Ret)
	if f.Ret.K != "unit" && g.r.Chance(1, 6) {
		hd += " : " + f.Ret.String()
	}
	lines := []string{hd + " ="}
	lines = append(lines, g.body(f.Ret, env, 2, 2)...)
	text := strings.Join(lines, "\n") + "\n\n"
	if g.o.Layout == 1 && g.r.Chance(1, 3) {
		text = "// " + name + "\n" + text
	}
	g.push("let", name, text)
	if f.Ret.K != "unit" {
		g.funs = append(g.funs, f)
	}
}

// itemPoly: polymorphic helpers whose parameters unify into classes of several type variables.
func (g *Gen) itemPoly() {
	name := g.fresh("pf")
	var text string
	switch g.r.Intn(7) {
	case 0:
		text = "let " + name + " a b c =\n  [a; b; c]\n\n"
	case 1:
		text = "let " + name + " a b =\n  (b, a)\n\n"
	case 2:
		text = "let " + name + " f x =\n  f x\n\n"
	case 3:
		text = "let " + name + " f g x =\n  x |> f |> g\n\n"
	case 4:
		text = "let " + name + " a b c d =\n  if a = b then (c, d) else (d, c)\n\n"
	case 5:
		text = "let " + name + " a b c =\n  let x = [a; b]\n  let y = slice.PushLast c x\n  (slice.Head y, slice.Length x)\n\n"
	case 6:
		text = "let " + name + " f a b =\n  let x = f a\n  let y = f b\n  [x; y]\n\n"
	}
	g.push("let", name, text)
}

func (g *Gen) itemMain() {
	lines := []string{"let main () ="}
	lines = append(lines, g.body(tUnit, &scope{}, 2, 2)...)
	g.push("let", "main", strings.Join(lines, "\n")+"\n")
}

func (g *Gen) oneItem() {
	n := g.r.Intn(20)
	if g.o.NestedGeneric && !g.familyDone && g.r.Chance(1, 6) {
		g.familyDone = true
		switch g.r.Intn(6) {
		case 5:
			g.itemGenericDeepChain()
		case 4:
			g.itemGenericFromFieldAccess()
		case 0:
			g.itemGenericFamily()
		case 1:
			g.itemGenericNesting()
		case 2:
			g.itemGenericWrapped()
		default:
			g.itemGenericSteps()
		}
		return
	}
	if g.o.Shadow && g.o.PkgInfo && !g.qualDone && g.r.Chance(1, 5) {
		g.qualDone = true
		g.itemQualifiedVsField()
		return
	}
	switch {
	case g.o.AndHeavy && n < 14:
		g.itemTypeGroup()
	case g.o.TypeGroups && n < 2:
		g.itemTypeGroup()
	case n < 3:
		g.itemRecord()
	case n < 6:
		g.itemUnion()
	case n < 7 && g.o.PkgInfo:
		g.itemPkgInfo()
	case n < 8:
		g.itemVar()
	case n < 10 && g.o.Poly:
		g.itemPoly()
	default:
		g.itemFunc()
	}
}

// genItems builds a program: item 0 is the header, then o.Items items, optionally main.
func genItems(r *common.Rng, o GenOpts, tag string) *Gen {
	g := newGen(r, o, tag)
	g.push("header", "", genHeader)
	// start with a few types so that functions have something to talk about
	warm := g.r.Intn(3)
	for i := 0; i < warm && i < o.Items; i++ {
		if g.r.Chance(1, 2) {
			g.itemRecord()
		} else {
			g.itemUnion()
		}
	}
	for len(g.items)-1 < o.Items {
		g.oneItem()
	}
	if g.r.Chance(1, 3) {
		g.itemMain()
	}
	return g
}

func (g *Gen) text() string {
	var sb strings.Builder
	for _, it := range g.items {
		sb.WriteString(it.Text)
	}
	return sb.String()
}

// plantError damages a program text so that fc must reject it (reject profile).
// several packages export the same short names (one of the types generic); the program then names them without
// (or with the wrong) package. Rejected today; a lookup that falls back to "whatever package has it" would have
// to choose among the candidates.
const collidingPackages = `
package_info zzring =
  type ZzBuf
  let ZzNew: ()->ZzBuf
  let ZzLen: ZzBuf->int

package_info zzbyte =
  type ZzBuf
  let ZzNew: ()->ZzBuf
  let ZzLen: ZzBuf->string

package_info zzline =
  type ZzBuf
  let ZzNew: ()->ZzBuf
  let ZzLen: ZzBuf->int
  let ZzOnlyLine: int->int

package_info zzgap =
  type ZzBuf<T>
  let ZzNew<T>: ()->ZzBuf<T>
  let ZzOnlyGap: string->string

`

func plantError(r *common.Rng, src string) (string, string) {
	switch r.Intn(10) {
	case 8:
		use := []string{
			"type ZzEd = {ZzName: string; ZzText: ZzBuf}\n\nlet zzBad (e:ZzEd) =\n  e.ZzText\n",
			"let zzBad (b:ZzBuf) (name:string) =\n  name = \"scratch\"\n",
			"let zzBad () =\n  ZzNew ()\n",
			"let zzBad (b:zzring.ZzBuf) =\n  ZzLen b\n",
		}[r.Intn(4)]
		return src + collidingPackages + use, "unqualified-external"
	case 9:
		use := []string{
			"let zzBad (a:int) =\n  zzring.ZzOnlyLine a\n",
			"let zzBad (a:string) =\n  zzbyte.ZzOnlyGap a\n",
			"let zzBad (b:zzother.ZzBuf) =\n  1\n",
		}[r.Intn(3)]
		return src + collidingPackages + use, "wrong-package-external"
	case 5:
		return src + "\npackage_info _ =\n  let ZzExt: int->\n", "bad-package-info"
	case 6:
		return src + "\nlet zzBad () =\n  99999999999999999999999999999\n", "huge-number"
	case 7:
		return src + "\nlet zzBad () =\n  \"unterminated", "unterminated-string-at-eof"
	case 0:
		return src + "\nlet zzBad () =\n  undefinedName 1\n", "unknown-name"
	case 1:
		return src + "\ntype ZzU =\n  | ZzA of int\n  | ZzB\n  | ZzC of string\n\nlet zzBad (u:ZzU) =\n  match u with\n  | ZzA i -> i\n", "missing-cases"
	case 2:
		return src + "\nlet zzBad (a:NoSuchType) =\n  a\n", "unknown-type"
	case 3:
		return src + "\nlet zzBad () =\n  (1, [2; 3\n", "unbalanced"
	default:
		return src + "\nlet zzBad (a:int) =\n  if a > 1 then\n    2\n else\n    3\n", "offside"
	}
}

// ---- programs for the checks ----

// cutFiles splits the item list (after the header) into n consecutive files, each with its own header.
func cutFiles(g *Gen, r *common.Rng, nfiles int, dirs []string) (argv []string, files map[string][]byte) {
	files = map[string][]byte{}
	body := g.items[1:]
	if nfiles > len(body) {
		nfiles = len(body)
	}
	if nfiles < 1 {
		nfiles = 1
	}
	cuts := map[int]bool{}
	for len(cuts) < nfiles-1 {
		cuts[1+r.Intn(len(body)-1)] = true
	}
	idx := 0
	var sb strings.Builder
	sb.WriteString(genHeader)
	style := r.Intn(8)
	flush := func() {
		name := fmt.Sprintf("%s/%s", dirs[idx%len(dirs)], fileName(style, "m", idx))
		files[name] = []byte(sb.String())
		argv = append(argv, name)
		idx++
		sb.Reset()
		sb.WriteString(genHeader)
	}
	for i, it := range body {
		if cuts[i] {
			flush()
		}
		sb.WriteString(it.Text)
	}
	flush()
	return
}

func genProgramC05(r *common.Rng, i int) *Program {
	o := swarmOpts(r)
	o.Ambiguous = r.Chance(1, 5)
	o.AmbiguousCases = r.Chance(1, 6)
	o.Reject = r.Chance(1, 8)
	if r.Chance(1, 2) {
		o.Items = r.Range(3, 25)
	}
	g := genItems(r, o, "")
	nfiles := 1
	if r.Chance(1, 3) {
		nfiles = r.Range(2, 5)
	}
	argv, files := cutFiles(g, r, nfiles, []string{"p", "p/sub", "q"}[:r.Range(1, 3)])
	name := fmt.Sprintf("gen:%d", i)
	if o.Reject {
		last := argv[len(argv)-1]
		s, kind := plantError(r, string(files[last]))
		files[last] = []byte(s)
		name += ":reject-" + kind
	}
	if o.Ambiguous {
		name += ":ambiguous"
	}
	// a later file of another package redeclares a record name of an earlier file, adds a record with the same
	// field names and uses a literal of them (legal across packages in one invocation)
	if len(argv) > 1 && r.Chance(1, 4) {
		var cands []*gRec
		for _, rc := range g.recs {
			if !rc.Generic && len(rc.Fields) > 0 {
				cands = append(cands, rc)
			}
		}
		if len(cands) > 0 {
			rc := cands[r.Intn(len(cands))]
			var fs, lit []string
			ok := true
			for _, f := range rc.Fields {
				if f.T.K != "int" && f.T.K != "string" && f.T.K != "bool" {
					ok = false
				}
				fs = append(fs, f.Name+": "+f.T.String())
				lit = append(lit, f.Name+"="+map[string]string{"int": "1", "string": "\"s\"", "bool": "true"}[f.T.K])
			}
			if ok {
				last := argv[len(argv)-1]
				body := strings.Replace(string(files[last]), "package main", "package other", 1)
				body += "\ntype " + rc.Name + " = {" + strings.Join(fs, "; ") + "}\n\ntype ZzSame = {" + strings.Join(fs, "; ") + "}\n\nlet zzLit () =\n  {" + strings.Join(lit, "; ") + "}\n"
				files[last] = []byte(body)
				name += ":redeclare"
			}
		}
	}
	files["pkg/pkg_all.foi"] = pkgAllFoi
	all := append([]string{"pkg/pkg_all.foi"}, argv...)
	// argv quirks: the same file twice (also under another spelling of its path)
	switch r.Intn(12) {
	case 0:
		all = append(all, argv[0])
		name += ":twice"
	case 1:
		all = append(all, "./"+argv[r.Intn(len(argv))])
		name += ":twice-dotslash"
	case 2:
		if len(argv) > 1 {
			all = append(all, argv[0], argv[len(argv)-1])
			name += ":twice2"
		}
	}
	return newProgram(name, all, files, "gen")
}

// pkgAllFoi is the working tree's pkg/pkg_all.foi, loaded once per check.
var pkgAllFoi []byte

// itemTypeGroup: a "type A = ... and B = ... and C = ..." group whose members refer to each other, also
// forwards. Recursion always passes through a union (records only refer to unions of the group), and every
// union has a leaf case so that values can be built.
func (g *Gen) itemTypeGroup() {
	k := g.r.Range(2, 4)
	if g.o.AndHeavy {
		k = g.r.Range(3, 5)
	}
	item := len(g.items)
	type member struct {
		rec *gRec
		uni *gUni
	}
	var ms []member
	haveUnion := false
	for i := 0; i < k; i++ {
		if i == k-1 && !haveUnion || g.r.Chance(1, 2) {
			u := &gUni{Name: g.typeName("U"), item: item}
			ms = append(ms, member{uni: u})
			haveUnion = true
		} else {
			rc := &gRec{Name: g.typeName("R"), item: item}
			ms = append(ms, member{rec: rc})
		}
	}
	var unions []*gUni
	for _, m := range ms {
		if m.uni != nil {
			unions = append(unions, m.uni)
		}
	}
	pos := map[string]int{}
	for i, m := range ms {
		if m.uni != nil {
			pos[m.uni.Name] = i
		} else {
			pos[m.rec.Name] = i
		}
	}
	groupType := func(self int, allowRec bool) *GT {
		var t *GT
		if allowRec && g.r.Chance(1, 2) {
			m := ms[g.r.Intn(len(ms))]
			if m.rec != nil {
				t = &GT{K: "rec", Name: m.rec.Name}
			} else {
				t = &GT{K: "uni", Name: m.uni.Name}
			}
		} else {
			u := unions[g.r.Intn(len(unions))]
			t = &GT{K: "uni", Name: u.Name}
		}
		if pos[t.Name] > self {
			g.forwardRefs++
		}
		if g.r.Chance(1, 4) {
			return tSlice(t)
		}
		return t
	}
	var parts []string
	for i, m := range ms {
		kw := "and"
		if i == 0 {
			kw = "type"
		}
		if m.uni != nil {
			u := m.uni
			lines := []string{kw + " " + u.Name + " ="}
			n := g.r.Range(2, 4)
			for c := 0; c < n; c++ {
				cn := fmt.Sprintf("%sC%d", u.Name, c)
				switch {
				case c == 0: // the leaf case
					if g.r.Chance(1, 2) {
						u.Cases = append(u.Cases, gCase{Name: cn})
						lines = append(lines, "  | "+cn)
					} else {
						u.Cases = append(u.Cases, gCase{Name: cn, Payload: tInt})
						lines = append(lines, "  | "+cn+" of int")
					}
				case g.r.Chance(3, 4):
					pt := groupType(i, true)
					u.Cases = append(u.Cases, gCase{Name: cn, Payload: pt})
					lines = append(lines, "  | "+cn+" of "+pt.String())
				default:
					pt := g.baseType()
					u.Cases = append(u.Cases, gCase{Name: cn, Payload: pt})
					lines = append(lines, "  | "+cn+" of "+pt.String())
				}
			}
			parts = append(parts, strings.Join(lines, "\n"))
		} else {
			rc := m.rec
			n := g.r.Range(1, 3)
			var fs []string
			for f := 0; f < n; f++ {
				fn := fmt.Sprintf("%sF%d", rc.Name, f)
				var ft *GT
				if f == 0 || g.r.Chance(1, 2) {
					ft = groupType(i, false)
				} else {
					ft = g.baseType()
				}
				rc.Fields = append(rc.Fields, gField{Name: fn, T: ft})
				fs = append(fs, fn+": "+ft.String())
			}
			g.declSets[fieldSetKey(rc.Fields)] = true
			parts = append(parts, kw+" "+rc.Name+" = {"+strings.Join(fs, "; ")+"}")
		}
	}
	for _, m := range ms {
		if m.uni != nil {
			g.unis = append(g.unis, m.uni)
		} else {
			g.recs = append(g.recs, m.rec)
		}
	}
	name := ""
	if ms[0].uni != nil {
		name = ms[0].uni.Name
	} else {
		name = ms[0].rec.Name
	}
	g.push("type", name, strings.Join(parts, "\n")+"\n\n")
}

// fileName: file-name shapes a user may legally choose; gen_<base>.go must follow the whole base name.
func fileName(style int, stem string, idx int) string {
	switch style {
	case 1:
		return fmt.Sprintf("%s%d.part.fo", stem, idx)
	case 2:
		return fmt.Sprintf("shapes.%s%d.fo", stem, idx) // siblings share the first dot-separated part
	case 3:
		return fmt.Sprintf("gen_%s%d.fo", stem, idx)
	case 4:
		return fmt.Sprintf("%s-%d_x.fo", strings.ToUpper(stem), idx)
	case 5:
		return fmt.Sprintf("%s%d.fo.fo", stem, idx)
	case 6:
		return fmt.Sprintf("d%d/util.fo", idx) // the same base name in different directories
	}
	return fmt.Sprintf("%s%d.fo", stem, idx)
}

// itemGenericFamily is a schema: one generic container and one generic pair, two producer functions whose result
// types are instances that differ only in their *inner* type arguments (swapped, another base type, slices, nested
// containers), a consumer that obtains one instance indirectly (through the producer's result, without writing the
// type) and reads a field whose type depends on the inner arguments, and an unrelated definition that mentions the
// other instance. Any registry or cache keyed too coarsely on type arguments makes the consumer's translation
// depend on whether, and where, the unrelated definition is present.
func (g *Gen) itemGenericFamily() {
	k := g.fresh("K")
	pair := &gRec{Name: "Pair" + k, Generic: true, NParams: 2, item: len(g.items),
		Fields: []gField{{Name: "Fst" + k}, {Name: "Snd" + k, TP: 1}}}
	g.declSets[fieldSetKey(pair.Fields)] = true
	g.recs = append(g.recs, pair)
	g.push("type", pair.Name, "type "+pair.Name+"<T, U> = {Fst"+k+": T; Snd"+k+": U}\n\n")
	box := &gRec{Name: "Box" + k, Generic: true, NParams: 1, item: len(g.items),
		Fields: []gField{{Name: "Val" + k}, {Name: "Tag" + k, T: tInt}}}
	g.declSets[fieldSetKey(box.Fields)] = true
	g.recs = append(g.recs, box)
	g.push("type", box.Name, "type "+box.Name+"<T> = {Val"+k+": T; Tag"+k+": int}\n\n")

	lit := func(t *GT) string {
		switch t.K {
		case "int":
			return g.intLit()
		case "string":
			return g.strLit()
		case "bool":
			return "true"
		case "slice":
			return "[" + map[string]string{"int": "1; 2", "string": "\"a\"; \"b\"", "bool": "true"}[t.A.K] + "]"
		}
		return "0"
	}
	var mk func(t *GT) string
	mk = func(t *GT) string {
		if t.K == "rec" && t.Name == pair.Name {
			return "{Fst" + k + "=" + mk(t.Arg) + "; Snd" + k + "=" + mk(t.Arg2) + "}"
		}
		if t.K == "rec" && t.Name == box.Name {
			return "{Val" + k + "=" + mk(t.Arg) + "; Tag" + k + "=" + g.intLit() + "}"
		}
		return lit(t)
	}
	pairOf := func(a, b *GT) *GT { return &GT{K: "rec", Name: pair.Name, Arg: a, Arg2: b} }
	boxOf := func(a *GT) *GT { return &GT{K: "rec", Name: box.Name, Arg: a} }
	var ta, tb *GT
	switch g.r.Intn(5) {
	case 0:
		ta, tb = boxOf(pairOf(tInt, tString)), boxOf(pairOf(tString, tInt))
	case 1:
		ta, tb = boxOf(pairOf(tInt, tInt)), boxOf(pairOf(tInt, tString))
	case 2:
		ta, tb = boxOf(boxOf(tInt)), boxOf(boxOf(tString))
	case 3:
		ta, tb = pairOf(boxOf(tInt), tInt), pairOf(boxOf(tString), tInt)
	default:
		ta, tb = boxOf(pairOf(tSlice(tInt), tBool)), boxOf(pairOf(tSlice(tString), tBool))
	}
	// the field path from an instance down to a value whose type depends on the inner argument
	var path func(t *GT) []string
	path = func(t *GT) []string {
		if t.K == "rec" && t.Name == box.Name {
			return append([]string{"Val" + k}, path(t.Arg)...)
		}
		if t.K == "rec" && t.Name == pair.Name {
			return append([]string{"Fst" + k}, path(t.Arg)...)
		}
		return nil
	}
	mkA, mkB := g.fresh("mkA"), g.fresh("mkB")
	for _, d := range []struct {
		name string
		t    *GT
	}{{mkA, ta}, {mkB, tb}} {
		g.use(pair.item)
		g.use(box.item)
		item := len(g.items)
		g.push("let", d.name, "let "+d.name+" () : "+d.t.String()+" =\n  "+mk(d.t)+"\n\n")
		g.funs = append(g.funs, &gFun{Name: d.name, Ret: d.t, item: item})
	}
	// consumer of instance A: the type is never written, it arrives through mkA's result
	{
		name := g.fresh("useA")
		lines := []string{"let " + name + " () =", "  let b = " + mkA + " ()"}
		cur := "b"
		for i, f := range path(ta) {
			v := fmt.Sprintf("w%d", i)
			lines = append(lines, "  let "+v+" = "+cur+"."+f)
			cur = v
		}
		lines = append(lines, "  "+cur)
		for _, f := range g.funs {
			if f.Name == mkA {
				g.use(f.item)
			}
		}
		g.use(pair.item)
		g.use(box.item)
		g.push("let", name, strings.Join(lines, "\n")+"\n\n")
	}
	// an unrelated definition that mentions instance B (annotation, or through mkB)
	{
		name := g.fresh("otherB")
		g.use(pair.item)
		g.use(box.item)
		var text string
		if g.r.Chance(1, 2) {
			text = "let " + name + " (b: " + tb.String() + ") =\n  b." + strings.Join(path(tb), ".") + "\n\n"
		} else {
			for _, f := range g.funs {
				if f.Name == mkB {
					g.use(f.item)
				}
			}
			text = "let " + name + " () =\n  let b = " + mkB + " ()\n  b." + strings.Join(path(tb), ".") + "\n\n"
		}
		g.push("let", name, text)
	}
}

// ---- stress schemas (C16): legal programs of a few hundred bytes to a few kilobytes whose cost may explode ----

// stressProgram returns a small legal program built from one schema with a size parameter: chains and diamonds of
// types, nested tuples, deep nesting of expressions, very wide declarations. Termination within the step budget
// and without a runtime fatal error is demanded of them like of any other input.
func stressProgram(r *common.Rng) (string, string) {
	var sb strings.Builder
	sb.WriteString("package main\n\nimport frt\nimport slice\n\n")
	kind := r.Intn(18)
	d := []int{3, 6, 10, 16, 24, 40}[r.Intn(6)]
	name := ""
	switch kind {
	case 0: // record diamond: every level mentions the next one twice
		name = "record-diamond"
		fmt.Fprintf(&sb, "type D%d = {V%d: int}\n", d, d)
		for i := d - 1; i >= 0; i-- {
			fmt.Fprintf(&sb, "type D%d = {A%d: D%d; B%d: D%d}\n", i, i, i+1, i, i+1)
		}
		sb.WriteString("\nlet useD (x:D0) =\n  x.A0\n")
	case 1: // nested tuples: the type doubles per line
		name = "tuple-doubling"
		d = map[int]int{3: 3, 6: 6, 10: 9, 16: 12, 24: 14, 40: 16}[d] // 24 levels are out of reach (known finding, replayed from the corpus)
		sb.WriteString("let f () =\n  let x0 = 1\n")
		for i := 1; i <= d; i++ {
			fmt.Fprintf(&sb, "  let x%d = (x%d, x%d)\n", i, i-1, i-1)
		}
		fmt.Fprintf(&sb, "  x%d\n", d)
	case 2: // chain of generic unions, each mentioning the next one twice
		name = "generic-union-chain"
		fmt.Fprintf(&sb, "type G%d<T> =\n  | L%d of T\n  | N%d\n\n", d, d, d)
		for i := d - 1; i >= 0; i-- {
			fmt.Fprintf(&sb, "type G%d<T> =\n  | A%d of G%d<T>\n  | B%d of G%d<T>\n\n", i, i, i+1, i, i+1)
		}
		sb.WriteString("let useG (x:G0<int>) =\n  x\n\nlet mkG () =\n  (N" + fmt.Sprint(d) + ", N" + fmt.Sprint(d) + ")\n")
	case 3: // chain of unions (non generic), twice each
		name = "union-chain"
		fmt.Fprintf(&sb, "type H%d =\n  | HL%d of int\n\n", d, d)
		for i := d - 1; i >= 0; i-- {
			fmt.Fprintf(&sb, "type H%d =\n  | HA%d of H%d\n  | HB%d of H%d\n\n", i, i, i+1, i, i+1)
		}
		sb.WriteString("let useH (x:H0) =\n  x\n")
	case 4: // deeply nested generic instantiation
		name = "nested-instantiation"
		sb.WriteString("type Bx<T> = {Vx: T; Nx: int}\n\n")
		t := "int"
		for i := 0; i < d; i++ {
			t = "Bx<" + t + ">"
		}
		sb.WriteString("let useB (x: " + t + ") =\n  x.Nx\n")
	case 5: // deeply nested lambdas
		name = "nested-lambdas"
		sb.WriteString("let f () =\n  ")
		for i := 0; i < d; i++ {
			fmt.Fprintf(&sb, "(fun a%d -> ", i)
		}
		sb.WriteString("1")
		sb.WriteString(strings.Repeat(")", d))
		sb.WriteString("\n")
	case 6: // deeply nested if
		name = "nested-if"
		sb.WriteString("let f (a:int) =\n  ")
		for i := 0; i < d; i++ {
			fmt.Fprintf(&sb, "if a > %d then %d else ", i, i)
		}
		sb.WriteString("0\n")
	case 7: // long pipeline
		name = "long-pipeline"
		sb.WriteString("let inc (a:int) = a + 1\n\nlet f () =\n  1")
		for i := 0; i < d*8; i++ {
			sb.WriteString(" |> inc")
		}
		sb.WriteString("\n")
	case 8: // wide record and literal
		name = "wide-record"
		var fs, lit []string
		for i := 0; i < d*6; i++ {
			fs = append(fs, fmt.Sprintf("W%d: int", i))
			lit = append(lit, fmt.Sprintf("W%d=%d", i, i))
		}
		sb.WriteString("type Wide = {" + strings.Join(fs, "; ") + "}\n\nlet f () =\n  {" + strings.Join(lit, "; ") + "}\n")
	case 9: // wide union and match
		name = "wide-union"
		sb.WriteString("type WU =\n")
		for i := 0; i < d*6; i++ {
			fmt.Fprintf(&sb, "  | WC%d of int\n", i)
		}
		sb.WriteString("\nlet f (u:WU) =\n  match u with\n")
		for i := 0; i < d*6; i++ {
			fmt.Fprintf(&sb, "  | WC%d v -> v + %d\n", i, i)
		}
	case 10: // many parameters, all unannotated and unified
		name = "many-unannotated-parameters"
		sb.WriteString("let f")
		for i := 0; i < d*2; i++ {
			fmt.Fprintf(&sb, " p%d", i)
		}
		sb.WriteString(" =\n  [")
		for i := 0; i < d*2; i++ {
			if i > 0 {
				sb.WriteString("; ")
			}
			fmt.Fprintf(&sb, "p%d", i)
		}
		sb.WriteString("]\n")
	case 11: // nested slices of slices literal
		name = "nested-slices"
		sb.WriteString("let f () =\n  " + strings.Repeat("[", d) + "1" + strings.Repeat("]", d) + "\n")
	case 12: // many definitions that call each other in a chain, all unannotated
		name = "unannotated-call-chain"
		d = map[int]int{3: 1, 6: 2, 10: 3, 16: 3, 24: 4, 40: 4}[d] // the type squares per level: 5 levels are out of reach (known finding, replayed from the corpus)
		sb.WriteString("let c0 a b = (b, a)\n\n")
		for i := 1; i <= d; i++ {
			fmt.Fprintf(&sb, "let c%d a b =\n  c%d (c%d a b) (c%d b a)\n\n", i, i-1, i-1, i-1)
		}
	case 14: // constructors of a generic union nested in an expression: the type is linear in the depth
		name = "nested-constructors"
		sb.WriteString("type OptS<T> =\n  | SomeS of T\n  | NoneS\n\nlet wrapS x =\n  " + strings.Repeat("SomeS (", d) + "x" + strings.Repeat(")", d) + "\n")
	case 15: // the same with a three-case union
		name = "nested-constructors-3"
		sb.WriteString("type TagS<T> =\n  | FreshS of T\n  | CachedS of T\n  | StaleS of T\n\nlet wrapT x =\n  ")
		for i := 0; i < d; i++ {
			sb.WriteString([]string{"CachedS (", "FreshS (", "StaleS ("}[i%3])
		}
		sb.WriteString("x" + strings.Repeat(")", d) + "\n")
	case 17: // a tree of generic record instances: every level instantiates the level below at two different arguments
		name = "generic-instance-tree"
		d = map[int]int{3: 3, 6: 5, 10: 7, 16: 9, 24: 10, 40: 11}[d] // 2^k instances are registered eagerly: 20+ levels are out of reach (known finding, replayed from the corpus)
		sb.WriteString("type GI0<T> = {v: T}\n")
		for i := 1; i <= d; i++ {
			fmt.Fprintf(&sb, "type GI%d<T> = {x: GI%d<[]T>; y: GI%d<T*int>}\n", i, i-1, i-1)
		}
	case 16: // literals of a generic record nested in an expression
		name = "nested-record-literals"
		sb.WriteString("type BoxS<T> = {ValS: T}\n\nlet wrapR x =\n  " + strings.Repeat("{ValS=", d) + "x" + strings.Repeat("}", d) + "\n")
	default: // nested match on tuples of unions
		name = "nested-match"
		sb.WriteString("type M =\n  | MA of int\n  | MB\n\nlet f (m:M) =\n")
		indent := "  "
		for i := 0; i < d && i < 30; i++ {
			sb.WriteString(indent + "match m with\n" + indent + "| MB -> 0\n" + indent + "| MA v" + fmt.Sprint(i) + " ->\n")
			indent += "  "
		}
		sb.WriteString(indent + "1\n")
	}
	return fmt.Sprintf("stress:%s:%d", name, d), sb.String()
}

// itemGenericNesting is a schema: a generic union used inside a generic record at the record's own parameter
// (Box<T> = {Item: Opt<T>; Def: T}), an unannotated polymorphic constructor function, a consumer of one concrete
// instance, and further definitions that instantiate the same types again through the constructor or merely
// mention them. Every instance goes through fc's registry of record / union field types; what one definition
// leaves there must not change how another one is translated.
func (g *Gen) itemGenericNesting() {
	k := g.fresh("N")
	opt, box := "Opt"+k, "Box"+k
	some, none := "Some"+k, "None"+k
	item, def := "Item"+k, "Def"+k
	optItem := len(g.items)
	g.push("type", opt, "type "+opt+"<T> =\n  | "+some+" of T\n  | "+none+"\n\n")
	boxItem := len(g.items)
	g.use(optItem)
	g.declSets[item+","+def] = true
	g.push("type", box, "type "+box+"<T> = {"+item+": "+opt+"<T>; "+def+": T}\n\n")
	wrap := g.fresh("wrap")
	wrapItem := len(g.items)
	g.use(boxItem)
	g.use(optItem)
	g.useSets[item+","+def] = true
	g.push("let", wrap, "let "+wrap+" d o =\n  {"+item+"=o; "+def+"=d}\n\n")
	base := []string{"int", "string", "bool"}[g.r.Intn(3)]
	lit := map[string]string{"int": "1", "string": "\"s\"", "bool": "true"}[base]
	// consumer under observation
	{
		name := g.fresh("itemOf")
		g.use(boxItem)
		g.use(optItem)
		g.push("let", name, "let "+name+" (b: "+box+"<"+base+">) =\n  b."+item+"\n\n")
	}
	mk := g.fresh("mkB")
	mkItem := len(g.items)
	g.use(wrapItem)
	g.use(boxItem)
	g.use(optItem)
	g.push("let", mk, "let "+mk+" (o: "+opt+"<"+base+">) =\n  "+wrap+" "+lit+" o\n\n")
	{
		name := g.fresh("getItem")
		g.use(mkItem)
		g.use(boxItem)
		g.use(optItem)
		g.push("let", name, "let "+name+" (o: "+opt+"<"+base+">) =\n  let b = "+mk+" o\n  b."+item+"\n\n")
	}
	{
		name := g.fresh("unrelated")
		g.use(boxItem)
		g.use(optItem)
		other := []string{"int", "string", "bool"}[g.r.Intn(3)]
		g.push("let", name, "let "+name+" (q: "+box+"<"+other+">) =\n  1\n\n")
	}
	if g.r.Chance(1, 2) {
		name := g.fresh("defOf")
		g.use(boxItem)
		g.use(optItem)
		g.push("let", name, "let "+name+" (b: "+box+"<"+base+">) =\n  b."+def+"\n\n")
	}
}

// itemGenericDeepChain is a schema: one generic union and a chain of 3-8 generic records, each holding an optional
// value of the level below (or one record nesting the union in itself that deep). A definition over the lowest
// level is under observation; an unrelated one instantiates the top level, which walks through all the nested
// instances of the one union on a single path.
func (g *Gen) itemGenericDeepChain() {
	k := g.fresh("D")
	opt, some, none := "Opt"+k, "Some"+k, "None"+k
	optItem := len(g.items)
	g.push("type", opt, "type "+opt+"<T> =\n  | "+some+" of T\n  | "+none+"\n\n")
	depth := g.r.Range(3, 8)
	base := []string{"int", "string", "bool"}[g.r.Intn(3)]
	low := "Lv0" + k
	lowItem := len(g.items)
	g.use(optItem)
	inner := "T"
	nest := 1
	if g.r.Chance(1, 3) {
		nest = g.r.Range(2, 3)
	}
	for i := 0; i < nest; i++ {
		inner = opt + "<" + inner + ">"
	}
	g.push("type", low, "type "+low+"<T> = {Val"+k+": "+inner+"; Def"+k+": T}\n\n")
	observed := func() {
		name := g.fresh("valOf")
		g.use(lowItem)
		g.use(optItem)
		g.push("let", name, "let "+name+" (l: "+low+"<"+base+">) =\n  l.Val"+k+"\n\n")
	}
	early := g.r.Chance(1, 2)
	if early {
		observed()
	}
	prev, prevItem := low, lowItem
	if g.r.Chance(1, 3) {
		// one record nesting the union in itself around the lowest level
		top := "Deep" + k
		t := prev + "<T>"
		for i := 0; i < depth; i++ {
			t = opt + "<" + t + ">"
		}
		g.use(prevItem)
		g.use(optItem)
		prevItem = len(g.items)
		g.push("type", top, "type "+top+"<T> = {Down"+k+": "+t+"; Id"+k+": int}\n\n")
		prev = top
	} else {
		for i := 1; i <= depth; i++ {
			name := fmt.Sprintf("Lv%d%s", i, k)
			g.use(prevItem)
			g.use(optItem)
			it := len(g.items)
			g.push("type", name, fmt.Sprintf("type %s<T> = {Down%d%s: %s<%s<T>>; Id%d%s: int}\n\n", name, i, k, opt, prev, i, k))
			prev, prevItem = name, it
		}
	}
	{
		name := g.fresh("unrelatedTop")
		g.use(prevItem)
		g.use(optItem)
		g.push("let", name, "let "+name+" (t: "+prev+"<"+base+">) =\n  1\n\n")
	}
	if !early || g.r.Chance(1, 2) {
		observed()
	}
}

// itemQualifiedVsField is a schema: a package_info block with a function, a record with a field of the same name as
// that function, and a definition whose parameter has the same name as the package and the record as its type:
// "conf.Level" inside it is a field access on the parameter, whatever packages happen to be loaded. The
// package_info block is unrelated to that definition (it is not referenced by it).
func (g *Gen) itemQualifiedVsField() {
	k := g.fresh("Q")
	pkg, fn, rec := "conf"+k, "Level"+k, "Cfg"+k
	g.push("pinfo", pkg, "package_info "+pkg+" =\n  let "+fn+": ()->int\n  let Other"+k+": int->string\n\n")
	recItem := len(g.items)
	g.declSets[fn+","+"Name"+k] = true
	g.push("type", rec, "type "+rec+" = {"+fn+": string; Name"+k+": int}\n\n")
	{
		name := g.fresh("useQ")
		g.use(recItem)
		g.push("let", name, "let "+name+" ("+pkg+": "+rec+") =\n  "+pkg+"."+fn+"\n\n")
	}
	{
		name := g.fresh("useQ")
		g.use(recItem)
		g.push("let", name, "let "+name+" (r: "+rec+") =\n  let "+pkg+" = r\n  ("+pkg+"."+fn+", "+pkg+".Name"+k+")\n\n")
	}
}

// itemGenericWrapped is a schema: a generic union wrapped around a generic record that itself contains the same
// union at another instance (History<T> = {Last: Opt<Slot<T>>; Len: int}, Slot<T> = {Cur: T; Prev: Opt<T>}):
// Opt<T> inside Opt<Slot<T>> is another instance, not a recursive reference. A consumer of Slot<int> and an
// unrelated consumer of History<int>.
func (g *Gen) itemGenericWrapped() {
	k := g.fresh("W")
	opt, slot, hist := "Opt"+k, "Slot"+k, "Hist"+k
	optItem := len(g.items)
	g.push("type", opt, "type "+opt+"<T> =\n  | Some"+k+" of T\n  | None"+k+"\n\n")
	slotItem := len(g.items)
	g.use(optItem)
	g.declSets["Cur"+k+",Prev"+k] = true
	g.push("type", slot, "type "+slot+"<T> = {Cur"+k+": T; Prev"+k+": "+opt+"<T>}\n\n")
	histItem := len(g.items)
	g.use(optItem)
	g.use(slotItem)
	g.declSets["Last"+k+",Len"+k] = true
	g.push("type", hist, "type "+hist+"<T> = {Last"+k+": "+opt+"<"+slot+"<T>>; Len"+k+": int}\n\n")
	base := []string{"int", "string", "bool"}[g.r.Intn(3)]
	{
		name := g.fresh("prevOf")
		g.use(slotItem)
		g.use(optItem)
		g.push("let", name, "let "+name+" (s:"+slot+"<"+base+">) =\n  s.Prev"+k+"\n\n")
	}
	{
		name := g.fresh("lenOf")
		g.use(histItem)
		g.use(slotItem)
		g.use(optItem)
		g.push("let", name, "let "+name+" (h:"+hist+"<"+base+">) =\n  h.Len"+k+"\n\n")
	}
	if g.r.Chance(1, 2) {
		name := g.fresh("curOf")
		g.use(slotItem)
		g.use(optItem)
		g.push("let", name, "let "+name+" (s:"+slot+"<"+base+">) =\n  s.Cur"+k+"\n\n")
	}
}

// itemGenericSteps is a schema: a generic union whose case carries another generic union at the same parameter
// (Step<T> = | Done of T | More of Opt<T>), producers that go through inference only (no annotation), a relay
// chain, and unrelated polymorphic helpers that nest the two unions the other way round (Some (Done v)).
func (g *Gen) itemGenericSteps() {
	k := g.fresh("S")
	opt, step := "Opt"+k, "Step"+k
	optItem := len(g.items)
	g.push("type", opt, "type "+opt+"<T> =\n  | Some"+k+" of T\n  | None"+k+"\n\n")
	stepItem := len(g.items)
	g.use(optItem)
	g.push("type", step, "type "+step+"<T> =\n  | Done"+k+" of T\n  | More"+k+" of "+opt+"<T>\n\n")
	lit := []string{"1", "\"s\"", "true"}[g.r.Intn(3)]
	mk := g.fresh("mkStep")
	mkItem := len(g.items)
	g.use(stepItem)
	g.use(optItem)
	g.push("let", mk, "let "+mk+" () =\n  Done"+k+" "+lit+"\n\n")
	relay := g.fresh("relay")
	relayItem := len(g.items)
	g.use(mkItem)
	g.use(stepItem)
	g.use(optItem)
	g.push("let", relay, "let "+relay+" () =\n  "+mk+" ()\n\n")
	{
		name := g.fresh("useRelay")
		g.use(relayItem)
		g.use(stepItem)
		g.use(optItem)
		g.push("let", name, "let "+name+" () =\n  "+relay+" ()\n\n")
	}
	doneOpt := g.fresh("doneOpt")
	doneItem := len(g.items)
	g.use(stepItem)
	g.use(optItem)
	g.push("let", doneOpt, "let "+doneOpt+" v =\n  Some"+k+" (Done"+k+" v)\n\n")
	{
		name := g.fresh("firstStep")
		g.use(doneItem)
		g.use(stepItem)
		g.use(optItem)
		g.push("let", name, "let "+name+" () =\n  "+doneOpt+" "+lit+"\n\n")
	}
}

// itemGenericFromFieldAccess is a schema: local functions with unannotated parameters build instances of a
// generic record from field accesses whose type is not yet known when the instance is created (Box<p.Name>,
// Box<p.Age>), next to an unrelated consumer of one concrete instance. Instances that are still unresolved must
// not be confused with each other, nor with the concrete one.
func (g *Gen) itemGenericFromFieldAccess() {
	k := g.fresh("A")
	person, box := "Person"+k, "Box"+k
	personItem := len(g.items)
	g.declSets["Age"+k+",Name"+k] = true
	g.push("type", person, "type "+person+" = {Name"+k+": string; Age"+k+": int}\n\n")
	boxItem := len(g.items)
	g.declSets["V"+k] = true
	g.push("type", box, "type "+box+"<T> = {V"+k+": T}\n\n")
	base := g.r.Pick("string", "int")
	{
		name := g.fresh("unbox")
		g.use(boxItem)
		g.push("let", name, "let "+name+" (b:"+box+"<"+base+">) =\n  b.V"+k+"\n\n")
	}
	{
		name := g.fresh("boxAll")
		g.use(boxItem)
		g.use(personItem)
		g.useSets["V"+k] = true
		g.push("let", name, "let "+name+" (ps:[]"+person+") =\n  let nameBox p = {V"+k+"=p.Name"+k+"}\n  let ageBox p = {V"+k+"=p.Age"+k+"}\n  (slice.Map nameBox ps, slice.Map ageBox ps)\n\n")
	}
	if g.r.Chance(1, 2) {
		name := g.fresh("mkBox")
		g.use(boxItem)
		g.useSets["V"+k] = true
		lit := map[string]string{"string": "\"s\"", "int": "1"}[base]
		item := len(g.items)
		g.push("let", name, "let "+name+" () =\n  {V"+k+"="+lit+"}\n\n")
		first := g.fresh("firstOf")
		g.use(item)
		g.use(boxItem)
		g.push("let", first, "let "+first+" () =\n  let b = "+name+" ()\n  b.V"+k+"\n\n")
	}
}
