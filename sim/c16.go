package main

import (
	"encoding/base64"
	"fmt"
	"os"
	"time"
	"path/filepath"
	"regexp"
	"sort"
	"strings"

	"fosim/common"
)

// ---- C16: fc always terminates with either complete output or a diagnostic (I/O faults + step budget) ----

const c16BudgetFloor = int64(50_000_000)
const c16MaxInput = 32 * 1024

var reFuncN = regexp.MustCompile(`(\.func\d+)+(\.\d+)*$`)
var reFrame = regexp.MustCompile(`(?m)^(main\.[A-Za-z0-9_\.\(\)\*]+?)(?:\[[^\n]*\])?\(`)

// stackFuncs returns the main.* functions of a Go stack trace in order of appearance (innermost first).
func stackFuncs(stderr string) []string {
	var out []string
	for _, m := range reFrame.FindAllStringSubmatch(stderr, -1) {
		out = append(out, m[1])
	}
	return out
}

// recursionCycle: the set of functions that occur at least three times in the trace.
func recursionCycle(stderr string) string {
	cnt := map[string]int{}
	for _, f := range stackFuncs(stderr) {
		f = reFuncN.ReplaceAllString(f, "")
		cnt[f]++
	}
	var cyc []string
	for f, n := range cnt {
		if n >= 3 {
			cyc = append(cyc, f)
		}
	}
	sort.Strings(cyc)
	return strings.Join(cyc, ",")
}

func firedFaults(sc *Scenario, r *Result) []string {
	set := map[string]bool{}
	for _, e := range r.Events {
		if e.Op == "read" && e.Fault != "" {
			set[e.Fault] = true
		}
		if e.Op == "write" && e.Fault != "" && !e.Ok {
			set[e.Fault] = true
		}
		if e.Op == "read" && !e.Ok && e.Fault == "" {
			set["read_"+e.Why] = true // missing / is_dir
		}
		if e.Op == "write" && !e.Ok && e.Fault == "" {
			set["write_"+e.Why] = true // is_dir / no_parent
		}
		if e.Op == "read" && e.Ok {
			if f, ok := sc.Disk.Files[e.Path]; ok {
				for _, d := range f.Damage {
					set["damage_"+d.Kind] = true
				}
			}
		}
	}
	return sortedKeys(set)
}

func hasDiagnostic(r *Result) bool {
	if strings.TrimSpace(r.Stderr) != "" {
		return true
	}
	for _, l := range strings.Split(r.Stdout, "\n") {
		if strings.TrimSpace(l) != "" && !strings.HasPrefix(l, "transpile: ") {
			return true
		}
	}
	return false
}

func c16Oracle(sc *Scenario, r *Result) *Violation {
	fired := strings.Join(firedFaults(sc, r), "+")
	// 1. termination without a runtime fatal error
	if r.Budget {
		owner, frames := loopOwner(r.Stderr)
		return &Violation{Class: "budget", Signature: "budget@" + owner,
			Detail: fmt.Sprintf("fc did not terminate within the step budget of %d ticks; the two stack samples share (outermost first) ... %v", sc.TickBudget, frames)}
	}
	if r.Signal != "" {
		return &Violation{Class: "fatal", Signature: "fatal:signal:" + r.Signal, Detail: "fc was killed by signal " + r.Signal + "\n" + tail(r.Stderr, 600)}
	}
	if strings.Contains(r.Stderr, "fatal error:") || strings.Contains(r.Stderr, "goroutine stack exceeds") {
		kind := "other"
		if i := strings.Index(r.Stderr, "fatal error: "); i >= 0 {
			kind = strings.SplitN(r.Stderr[i+13:], "\n", 2)[0]
		}
		return &Violation{Class: "fatal", Signature: "fatal:" + strings.ReplaceAll(kind, " ", "-") + "@" + recursionCycle(r.Stderr),
			Detail: fmt.Sprintf("fc died of a Go runtime fatal error (%s), exit %d; recursion cycle: %s", kind, r.Exit, recursionCycle(r.Stderr))}
	}
	// 4. no stray write
	allowed := map[string]bool{}
	for _, a := range sc.Argv {
		if o, ok := outputFor(a); ok {
			allowed[filepath.Clean(o)] = true
		}
	}
	for _, w := range r.Writes() {
		if !allowed[w.Path] {
			return &Violation{Class: "stray-write", Signature: "stray-write",
				Detail: fmt.Sprintf("fc wrote to %s, which is not gen_<base>.go next to a .fo argument (argv %v)", w.Path, sc.Argv)}
		}
	}
	if r.Exit == 0 {
		// 2. every requested output completely written
		last := map[string]Event{}
		for _, w := range r.Writes() {
			last[w.Path] = w
		}
		for _, a := range sc.Argv {
			o, ok := outputFor(a)
			if !ok {
				continue
			}
			w, have := last[filepath.Clean(o)]
			switch {
			case !have:
				return &Violation{Class: "exit0-incomplete", Signature: "exit0-incomplete:nowrite@" + fired,
					Detail: fmt.Sprintf("fc exited 0 but never wrote %s", o)}
			case !w.Ok || w.Stored != w.Len:
				cause := w.Fault
				if cause == "" {
					cause = "write_" + w.Why
				}
				return &Violation{Class: "exit0-incomplete", Signature: "exit0-incomplete:failedwrite@" + cause,
					Detail: fmt.Sprintf("fc exited 0 although writing %s failed (%d of %d bytes stored, fault %q %s)", o, w.Stored, w.Len, w.Fault, w.Why)}
			}
		}
		return nil
	}
	// 3. non-zero exit: diagnostic, and nothing written for the offending file
	if !hasDiagnostic(r) {
		return &Violation{Class: "nonzero-silent", Signature: "nonzero-silent@" + fired,
			Detail: fmt.Sprintf("fc exited %d without printing a diagnostic; stdout: %q", r.Exit, tail(r.Stdout, 200))}
	}
	lastRead := -1
	for i, e := range r.Events {
		if e.Op == "read" {
			lastRead = i
		}
	}
	for i, e := range r.Events {
		if i > lastRead && e.Op == "write" && e.Stored >= 0 && (e.Ok || e.Fault == "") {
			return &Violation{Class: "wrote-offending", Signature: "wrote-offending@" + fired,
				Detail: fmt.Sprintf("fc exited %d but had already written %s for the file it then rejected", r.Exit, e.Path)}
		}
	}
	return nil
}

func head(xs []string, n int) []string {
	if len(xs) > n {
		return xs[:n]
	}
	return xs
}

// stressFamily: scenarios built from a stress schema carry "stress:<family>:<size>" in their note.
func stressFamily(sc *Scenario) string {
	if !strings.HasPrefix(sc.Note, "stress:") {
		return ""
	}
	parts := strings.SplitN(sc.Note, ":", 3)
	if len(parts) < 2 {
		return ""
	}
	return parts[1]
}

// c16Family re-labels resource exhaustion (step budget, out of memory) on a stress-schema input by the schema
// family instead of by the frame that happened to be running: two families are inherent (the Go type the program
// denotes is exponentially large) and are listed as known findings by family; every other family is not.
func c16Family(sc *Scenario, v *Violation) *Violation {
	fam := stressFamily(sc)
	if v == nil || fam == "" {
		return v
	}
	// only the schema input as generated carries the family label: once a fault or damage is added, whatever
	// goes wrong may have another cause and keeps its own signature
	if len(sc.Faults) > 0 || sc.Disk.Capacity > 0 {
		return v
	}
	for _, f := range sc.Disk.Files {
		if len(f.Damage) > 0 {
			return v
		}
	}
	if v.Class == "budget" || (v.Class == "fatal" && (strings.Contains(v.Signature, "memory") || strings.Contains(v.Signature, "stack-overflow"))) {
		return &Violation{Class: "exhausted", Signature: "exhausted#stress:" + fam, Detail: "stress schema " + sc.Note + ": " + v.Detail + " [" + v.Signature + "]"}
	}
	return v
}

func judgeC16(c *Ctx, sc *Scenario) *Violation {
	return c16Family(sc, judgeC16Raw(c, sc))
}

func judgeC16Raw(c *Ctx, sc *Scenario) *Violation {
	if sc.Real {
		s := sc.Clone()
		s.Real = false
		r := c.sim(c.B.FcVerif, s)
		if v := c16Oracle(s, r); v != nil {
			return v // a hang or crash in simulation: do not wait for it again on the real directory
		}
		return c16RealOracle(sc, r, RunReal(c.B.FcOff, sc, c.Work))
	}
	r := c.sim(c.B.FcVerif, sc)
	return c16Oracle(sc, r)
}

// c16RealOracle: what the shipped fc leaves on a real directory must be what the simulated run of the same
// fault-free scenario stored: same accept/reject, every output file with exactly the bytes handed to WriteFile
// (so bytes of an older, longer output that survive behind the new text are seen), nothing else touched.
func c16RealOracle(sc *Scenario, r *Result, rr *RealResult) *Violation {
	if rr.Watchdog {
		// the simulated run of the very same scenario ended by itself (the caller checked that); a shipped binary that
		// is still running after the wall-clock watchdog does something the simulated disk does not show it (reads
		// files past the seam, waits for something): reported, with the enormous margin stated
		if r.Ticks < sc.TickBudget/10 || sc.TickBudget == 0 {
			return &Violation{Class: "real-disk", Signature: "real-disk:hang",
				Detail: fmt.Sprintf("the simulated run ends after %d steps with exit %d; the shipped fc on a real directory holding the same files was still running after %v", r.Ticks, r.Exit, watchdog)}
		}
		harnessFail("watchdog on the real-directory run")
	}
	if (r.Exit == 0) != (rr.Exit == 0) {
		return &Violation{Class: "real-disk", Signature: "real-disk:exit",
			Detail: fmt.Sprintf("the simulated run exits %d, the shipped fc on a real directory exits %d: %s", r.Exit, rr.Exit, tail(rr.Stdout+rr.Stderr, 300))}
	}
	final := r.FinalFiles(sc)
	for p := range sc.Disk.Links {
		delete(final, filepath.Clean(p)) // a path that is a symlink to /dev/full holds no bytes to compare
	}
	for p, b := range rr.Changed {
		if want, ok := final[p]; !ok || string(want) != string(b) {
			return &Violation{Class: "real-disk", Signature: "real-disk:content",
				Detail: fmt.Sprintf("on a real directory the shipped fc left %s with %d bytes; the bytes it handed to WriteFile are %d: %s", p, len(b), len(want), diffSummary(want, b))}
		}
	}
	for p, b := range r.Written() {
		old, had := sc.Disk.Get(p)
		if had && string(old) == string(b) {
			continue
		}
		if _, isLink := sc.Disk.Links[p]; isLink {
			continue
		}
		if _, ok := rr.Changed[p]; !ok {
			return &Violation{Class: "real-disk", Signature: "real-disk:missing", Detail: "the simulated run wrote " + p + ", the shipped fc on a real directory did not"}
		}
	}
	return nil
}

func shrinkC16(c *Ctx, sc *Scenario, v *Violation, judge Judge) (*Scenario, *Violation) {
	// shrinking a non-termination finding costs a full step budget per candidate that still hangs: bound the effort
	// (a candidate tried after the limit counts as "does not fail", so the minimisation simply stops early)
	limit := time.Now().Add(75 * time.Second)
	inner := judge
	judge = func(c *Ctx, s *Scenario) *Violation {
		if time.Now().After(limit) {
			return nil
		}
		return inner(c, s)
	}
	cur := shrinkFaults(c, sc, v.Class, judge)
	cur = shrinkArgv(c, cur, v.Class, judge)
	cur = shrinkItems(c, cur, v.Class, judge)
	cur = shrinkLines(c, cur, v.Class, judge)
	d := dropUnusedFiles(cur)
	if same(judge(c, d), v.Class) {
		cur = d
	}
	nv := inner(c, cur)
	if nv == nil || nv.Class != v.Class {
		return sc, v
	}
	return cur, nv
}

// ---- workload ----

type c16Base struct {
	sc   *Scenario
	kind string
}

func totalInput(sc *Scenario) int {
	n := 0
	for _, a := range sc.Argv {
		if b, ok := sc.Disk.Get(filepath.Clean(a)); ok {
			n += len(b)
		}
	}
	return n
}

// c16BaseScenario draws a fault-free invocation: a program from the pools plus argv quirks.
func c16BaseScenario(c *Ctx, r *common.Rng, run int, pools [][]*Program) *Scenario {
	var p *Program
	switch n := r.Intn(20); {
	case r.Chance(1, 60):
		name, text := stressProgram(r)
		p = newProgram(name, []string{"pkg/pkg_all.foi", "st/stress.fo"}, map[string][]byte{"pkg/pkg_all.foi": pkgAllFoi, "st/stress.fo": []byte(text)}, "stress")
	case n < 5:
		p = pools[0][r.Intn(len(pools[0]))] // samples + tool
	case n < 8 && len(pools[1]) > 0:
		p = pools[1][r.Intn(len(pools[1]))] // snippets
	case n < 9 && len(pools[2]) > 0:
		p = pools[2][r.Intn(len(pools[2]))] // hand corpus
	default:
		o := swarmOpts(r)
		o.Items = r.Range(1, 14)
		g := genItems(r, o, "")
		nf := 1
		if r.Chance(1, 3) {
			nf = r.Range(2, 6)
		}
		argv, files := cutFiles(g, r, nf, []string{"p", "p/sub", "q"}[:r.Range(1, 3)])
		name := fmt.Sprintf("gen:%d", run)
		if r.Chance(1, 4) {
			// the rejected file may be the first, a middle or the last one of the invocation
			bad := argv[r.Intn(len(argv))]
			s, kind := plantError(r, string(files[bad]))
			files[bad] = []byte(s)
			name += ":reject-" + kind
		}
		files["pkg/pkg_all.foi"] = pkgAllFoi
		p = newProgram(name, append([]string{"pkg/pkg_all.foi"}, argv...), files, "gen")
	}
	sc := p.scenario("C16", c.Seed, run)
	// argv quirks
	switch r.Intn(16) {
	case 0:
		sc.Argv = nil
		sc.Note += "|noargs"
	case 1:
		if len(sc.Argv) > 0 {
			sc.Argv = append(sc.Argv, sc.Argv[len(sc.Argv)-1])
			sc.Note += "|twice"
		}
	case 2:
		sc.Argv = append(sc.Argv, "nowhere/missing.fo")
		sc.Note += "|missing-arg"
	case 3:
		sc.Disk.Dirs = append(sc.Disk.Dirs, "adir.fo")
		sc.Argv = append(sc.Argv, "adir.fo")
		sc.Note += "|dir-arg"
	case 4:
		if len(sc.Argv) > 0 {
			last := sc.Argv[len(sc.Argv)-1]
			b, _ := sc.Disk.Get(last)
			sc.Disk.Put("odd/name.txt", b, "copy of "+last)
			sc.Argv[len(sc.Argv)-1] = "odd/name.txt"
			sc.Note += "|no-fo-suffix"
		}
	case 5:
		if len(sc.Argv) > 1 {
			sc.Argv = sc.Argv[1:] // without pkg_all.foi
			sc.Note += "|no-foi"
		}
	case 6:
		if len(sc.Argv) > 0 {
			sc.Argv[len(sc.Argv)-1] = "./" + sc.Argv[len(sc.Argv)-1]
			sc.Note += "|dot-slash"
		}
	case 7:
		// unusual but legal file names: gen_<base>.go follows the whole base name
		if len(sc.Argv) > 0 {
			last := sc.Argv[len(sc.Argv)-1]
			if strings.HasSuffix(last, ".fo") {
				b, _ := sc.Disk.Get(filepath.Clean(last))
				nn := filepath.Join(filepath.Dir(last), r.Pick("a.b.c.fo", "shapes.types.fo", ".fo", "x y.fo", "gen_x.fo", "UPPER.fo", "m.fo.fo", "日本.fo"))
				sc.Disk.Put(nn, b, "renamed "+last)
				sc.Argv[len(sc.Argv)-1] = nn
				sc.Note += "|odd-name"
			}
		}
	case 9:
		// argument spellings other tools give a meaning to: a response file naming itself, an option, an empty string
		sc.Disk.Put("lists/self.txt", []byte("@self.txt\n@lists/self.txt\nself.txt\n@all.txt\n"), "response file naming itself")
		sc.Disk.Put("lists/all.txt", []byte("@self.txt\n@lists/self.txt\n"), "response file")
		sc.Argv = append(sc.Argv, r.Pick("@lists/self.txt", "@lists/all.txt", "--help", "-", "", "*.fo", "@"))
		sc.Note += "|odd-argument"
	case 8:
		if len(sc.Argv) > 0 {
			last := sc.Argv[len(sc.Argv)-1]
			b, _ := sc.Disk.Get(filepath.Clean(last))
			sc.Disk.Put("odd/name.FO", b, "copy of "+last)
			sc.Argv[len(sc.Argv)-1] = "odd/name.FO"
			sc.Note += "|upper-suffix"
		}
	}
	// stale outputs
	if r.Chance(1, 3) {
		for _, a := range sc.Argv {
			if o, ok := outputFor(a); ok && r.Chance(2, 3) {
				stale := "// stale output of an earlier run\npackage main\n"
				if r.Chance(1, 2) { // longer than the new output: the old tail must not survive
					stale += strings.Repeat("// left over from an earlier, much longer translation of this file\n", 700)
				}
				sc.Disk.Put(filepath.Clean(o), []byte(stale), "stale")
			}
		}
		sc.Note += "|stale"
	}
	return sc
}

// c16AddFaults puts 1..3 faults inside the workload the fault-free twin performs.
func c16AddFaults(r *common.Rng, base *Scenario, twin *Result, enabled map[string]bool) *Scenario {
	sc := base.Clone()
	n := r.Range(1, 3)
	reads, writes := twin.Reads(), twin.Writes()
	kinds := sortedKeys(enabled)
	for i := 0; i < n; i++ {
		switch kinds[r.Intn(len(kinds))] {
		case "read_error":
			if len(reads) > 0 {
				sc.Faults = append(sc.Faults, Fault{Op: "read", Nth: 1 + r.Intn(len(reads)), Kind: "error"})
			}
		case "missing":
			if len(reads) > 0 {
				e := reads[r.Intn(len(reads))]
				delete(sc.Disk.Files, e.Path)
			}
		case "is_dir":
			if len(reads) > 0 {
				e := reads[r.Intn(len(reads))]
				delete(sc.Disk.Files, e.Path)
				sc.Disk.Dirs = append(sc.Disk.Dirs, e.Path)
			}
		case "damage":
			var okReads []Event
			for _, e := range reads {
				if e.Ok && (e.Path != "pkg/pkg_all.foi" || r.Chance(1, 8)) {
					okReads = append(okReads, e)
				}
			}
			if len(okReads) > 0 {
				e := okReads[r.Intn(len(okReads))]
				f, ok := sc.Disk.Files[e.Path]
				if !ok {
					break
				}
				src, _ := base64.StdEncoding.DecodeString(f.B64)
				d := randomDamage(r, src)
				out := applyDamage(src, &d)
				if len(out) > c16MaxInput {
					out = out[:c16MaxInput]
				}
				f.B64 = base64.StdEncoding.EncodeToString(out)
				f.Damage = append(f.Damage, d)
			}
		case "write_error":
			if len(writes) > 0 {
				sc.Faults = append(sc.Faults, Fault{Op: "write", Nth: 1 + r.Intn(len(writes)), Kind: "error"})
			}
		case "enospc":
			if len(writes) > 0 {
				j := r.Intn(len(writes))
				after := 0
				if writes[j].Len > 0 {
					after = r.Intn(writes[j].Len)
				}
				sc.Faults = append(sc.Faults, Fault{Op: "write", Nth: j + 1, Kind: "enospc", After: after})
			}
		case "capacity":
			used := int64(0)
			for p := range sc.Disk.Files {
				b, _ := sc.Disk.Get(p)
				used += int64(len(b))
			}
			need := 0
			for _, w := range writes {
				need += w.Len
			}
			sc.Disk.Capacity = used + int64(r.Intn(need+1)) + 1
		case "dest_is_dir":
			if len(writes) > 0 {
				w := writes[r.Intn(len(writes))]
				delete(sc.Disk.Files, w.Path)
				sc.Disk.Dirs = append(sc.Disk.Dirs, w.Path)
			}
		}
	}
	return sc
}

var c16FaultKinds = []string{"read_error", "missing", "is_dir", "damage", "write_error", "enospc", "capacity", "dest_is_dir"}

func checkC16(tier string) {
	c := newCtx("C16", tier, "fc")
	pkgAllFoi = mustRead(filepath.Join(c.B.Repo, "pkg", "pkg_all.foi"))
	pools := [][]*Program{append(corpusSamples(c.B.Repo), corpusTool(c.B.Repo)), corpusSnippets(c.B.Repo), c05HandCorpus()}
	n := 20000
	if tier != "quick" {
		n = 400000
	}

	// pass 1: fault-free twins (controls). They fix the tick budget and tell where faults can land.
	c.phase("fault-free twins")
	bases := make([]*Scenario, n)
	twins := parallel(c, n, func(i int) *Result {
		r := common.NewRng(common.Mix(c.Seed, 16, uint64(i)))
		sc := c16BaseScenario(c, r, i, pools)
		sc.TickBudget = c16BudgetFloor
		bases[i] = sc
		return c.sim(c.B.FcVerif, sc)
	}, nil)
	if len(twins) != n {
		harnessFail("twin batch incomplete")
	}
	maxFree := int64(0)
	var violations int
	type bad struct {
		sc *Scenario
		v  *Violation
	}
	var bads []bad
	for i, r := range twins {
		// stress schemas are built to be expensive; the budget baseline is what ordinary inputs cost
		if r.Ticks > maxFree && !r.Budget && !strings.HasPrefix(bases[i].Note, "stress:") {
			maxFree = r.Ticks
		}
		if r.Exit == 0 {
			c.count("control_accept", 1)
		} else {
			c.count("control_reject", 1)
		}
		if v := c16Family(bases[i], c16Oracle(bases[i], r)); v != nil {
			c.count("control_violations", 1)
			bads = append(bads, bad{bases[i], v})
		}
	}
	budget := c16BudgetFloor
	if 100*maxFree > budget {
		budget = 100 * maxFree
	}

	// pass 2: fault-injecting runs
	c.phase(fmt.Sprintf("fault runs (budget %d ticks, largest fault-free run %d ticks)", budget, maxFree))
	type outcome struct {
		sc *Scenario
		v  *Violation
	}
	outs := parallel(c, n, func(i int) outcome {
		r := common.NewRng(common.Mix(c.Seed, 1616, uint64(i)))
		// swarm: which fault kinds are enabled in this run
		enabled := map[string]bool{}
		for _, k := range c16FaultKinds {
			if r.Chance(1, 3) {
				enabled[k] = true
			}
		}
		if len(enabled) == 0 {
			enabled[c16FaultKinds[r.Intn(len(c16FaultKinds))]] = true
		}
		sc := c16AddFaults(r, bases[i], twins[i], enabled)
		sc.TickBudget = budget
		res := c.sim(c.B.FcVerif, sc)
		fired := firedFaults(sc, res)
		for _, f := range fired {
			c.count("scenario_fault_fired:"+f, 1)
		}
		for k := range enabled {
			c.count("scenario_fault_enabled:"+k, 1)
		}
		if len(fired) > 0 && c.markDistinct("sc:"+sc.Hash()) {
			c.count("distinct_nontrivial", 1)
		}
		// reach probes
		{
			ws := res.Writes()
			for j, w := range ws {
				if w.Fault != "" && !w.Ok && j >= 1 {
					c.count("probe:write_fault_hit_second_or_later_output", 1)
					break
				}
			}
			if res.Exit != 0 {
				okWrites := 0
				for _, w := range ws {
					if w.Ok {
						okWrites++
					}
				}
				if okWrites > 0 {
					c.count("probe:rejected_after_earlier_outputs_were_written", 1)
				}
				if strings.Contains(sc.Note, "|stale") {
					c.count("probe:rejected_with_stale_output_present", 1)
				}
			}
			if len(fired) >= 2 {
				c.count("probe:two_or_more_fault_kinds_fired_in_one_run", 1)
			}
		}
		if res.Exit == 0 {
			c.count("fault_run_exit0", 1)
		} else {
			c.count(fmt.Sprintf("fault_run_exit%d", res.Exit), 1)
		}
		// faults a real directory can show as well (missing or directory input, damaged stored input, destination
		// is a directory): the shipped binary on a real directory must behave like the simulated run
		if i%10 == 0 && len(sc.Faults) == 0 && sc.Disk.Capacity == 0 && !res.Budget && c16Oracle(sc, res) == nil {
			rs := sc.Clone()
			rs.Real = true
			c.count("real_directory_runs_with_natural_fault", 1)
			if rv := judgeC16(c, rs); rv != nil {
				return outcome{rs, rv}
			}
		}
		if i%211 == 0 {
			var dm []Damage
			for _, p := range sortedKeys(sc.Disk.Files) {
				dm = append(dm, sc.Disk.Files[p].Damage...)
			}
			c.addSample(map[string]any{"base": sc.Note, "argv": sc.Argv, "faults": sc.Faults, "damage": dm, "capacity": sc.Disk.Capacity,
				"fired": fired, "exit": res.Exit, "ticks": res.Ticks, "stdout_tail": tail(res.Stdout, 120)}, 12)
		}
		return outcome{sc, c16Family(sc, c16Oracle(sc, res))}
	}, nil)
	for _, o := range outs {
		if o.v != nil {
			bads = append(bads, bad{o.sc, o.v})
		}
	}

	// thorough: truncation at every offset of every sample (and the tool)
	exhaustive := 0
	if tier != "quick" {
		c.phase("truncation at every offset of every sample")
		type job struct {
			p   *Program
			off int
		}
		var jobs []job
		for _, p := range pools[0] {
			src, _ := p.Disk.Get(p.Argv[len(p.Argv)-1])
			for off := 0; off <= len(src); off++ {
				jobs = append(jobs, job{p, off})
			}
		}
		touts := parallel(c, len(jobs), func(k int) outcome {
			j := jobs[k]
			sc := j.p.scenario("C16", c.Seed, 10_000_000+k)
			path := sc.Argv[len(sc.Argv)-1]
			f := sc.Disk.Files[path]
			src, _ := base64.StdEncoding.DecodeString(f.B64)
			d := Damage{Kind: "truncate", Off: j.off}
			f.B64 = base64.StdEncoding.EncodeToString(applyDamage(src, &d))
			f.Damage = []Damage{d}
			sc.TickBudget = budget
			res := c.sim(c.B.FcVerif, sc)
			return outcome{sc, c16Oracle(sc, res)}
		}, nil)
		exhaustive = len(touts)
		for _, o := range touts {
			if o.v != nil {
				bads = append(bads, bad{o.sc, o.v})
			}
		}
	}

	// seam fidelity / the real file system: the shipped binary on a real directory for a sample of the fault-free twins
	c.phase("shipped fc on real directories")
	nReal := n / 25
	routs := parallel(c, nReal, func(k int) outcome {
		if twins[k*25].Budget {
			return outcome{}
		}
		sc := bases[k*25].Clone()
		sc.Real = true
		sc.TickBudget = budget
		c.count("real_directory_runs", 1)
		rr := common.NewRng(common.Mix(c.Seed, 161616, uint64(k)))
		var okWrites []Event
		for _, w := range twins[k*25].Writes() {
			if w.Ok {
				okWrites = append(okWrites, w)
			}
		}
		switch {
		case len(okWrites) > 0 && rr.Chance(1, 3):
			// what an earlier run of a longer program leaves behind: the new output followed by more text, newer
			// than the sources
			for _, w := range okWrites {
				b, _ := base64.StdEncoding.DecodeString(w.Data)
				sc.Disk.Put(w.Path, append(append([]byte{}, b...), []byte("\n// tail of an older, longer output\nfunc zzOld() {}\n")...), "stale extension")
			}
			c.count("real_directory_runs_with_stale_extension", 1)
		case len(okWrites) > 0 && rr.Chance(1, 3) && devFullUsable():
			// a full disk for one output: simulated as a write error on that write, on the real directory as a
			// symlink to /dev/full in its place
			j := rr.Intn(len(okWrites))
			sc.Faults = []Fault{{Op: "write", Nth: okWrites[j].I, Kind: "error"}}
			delete(sc.Disk.Files, okWrites[j].Path)
			sc.Disk.Links = map[string]string{okWrites[j].Path: "/dev/full"}
			c.count("real_directory_runs_with_dev_full", 1)
		}
		return outcome{sc, judgeC16(c, sc)}
	}, nil)
	for _, o := range routs {
		if o.v != nil {
			bads = append(bads, bad{o.sc, o.v})
		}
	}
	// permanent corpus: replays of fixed and known findings and hand-kept boundary scenarios
	if ents, err := os.ReadDir(filepath.Join(verifDir, "corpus", "c16")); err == nil {
		var cs []*Scenario
		for _, e := range ents {
			if filepath.Ext(e.Name()) != ".json" {
				continue
			}
			sc, err := loadScenario(filepath.Join(verifDir, "corpus", "c16", e.Name()))
			if err != nil {
				harnessFail("corpus scenario %s: %v", e.Name(), err)
			}
			sc.Expect = nil
			sc.TickBudget = budget
			sc.Note += "|corpus:" + e.Name()
			cs = append(cs, sc)
		}
		c.phase(fmt.Sprintf("permanent corpus (%d scenarios)", len(cs)))
		for _, o := range parallel(c, len(cs), func(k int) outcome {
			c.count("corpus_scenarios", 1)
			return outcome{cs[k], judgeC16(c, cs[k])}
		}, nil) {
			if o.v != nil {
				bads = append(bads, bad{o.sc, o.v})
			}
		}
	}
	// thorough: every byte value inserted at every token boundary of two small programs
	if tier != "quick" {
		c.phase("every byte value at every interesting offset of two small programs")
		type job struct {
			p   *Program
			off int
			b   byte
		}
		var jobs []job
		small := []*Program{}
		for _, p := range pools[0] {
			src, _ := p.Disk.Get(p.Argv[len(p.Argv)-1])
			if len(src) < 260 && len(small) < 2 {
				small = append(small, p)
			}
		}
		for _, p := range small {
			src, _ := p.Disk.Get(p.Argv[len(p.Argv)-1])
			seen := map[int]bool{}
			for _, off := range interestingOffsets(src) {
				if off < 0 || off > len(src) || seen[off] {
					continue
				}
				seen[off] = true
				for b := 0; b < 256; b++ {
					jobs = append(jobs, job{p, off, byte(b)})
				}
			}
		}
		bouts := parallel(c, len(jobs), func(k int) outcome {
			j := jobs[k]
			sc := j.p.scenario("C16", c.Seed, 20_000_000+k)
			path := sc.Argv[len(sc.Argv)-1]
			f := sc.Disk.Files[path]
			src, _ := base64.StdEncoding.DecodeString(f.B64)
			d := Damage{Kind: "insert", Off: j.off, Text: string([]byte{j.b})}
			f.B64 = base64.StdEncoding.EncodeToString(applyDamage(src, &d))
			f.Damage = []Damage{d}
			sc.TickBudget = budget
			res := c.sim(c.B.FcVerif, sc)
			return outcome{sc, c16Oracle(sc, res)}
		}, nil)
		exhaustive += len(bouts)
		c.count("byte_sweep_runs", len(bouts))
		for _, o := range bouts {
			if o.v != nil {
				bads = append(bads, bad{o.sc, o.v})
			}
		}
	}
	c.phase(fmt.Sprintf("shrinking and reporting (%d raw violations)", len(bads)))
	sort.SliceStable(bads, func(i, j int) bool { return scenarioSize(bads[i].sc) < scenarioSize(bads[j].sc) })
	seenSig := map[string]bool{}
	rawSeen := map[string]int{}
	for _, b := range bads {
		c.count("raw_violation:"+b.v.Signature, 1)
		// a listed finding is reported as such without minimising it again (its replay is in the corpus)
		if k := common.KnownFor(c.Findings, c.Prop, b.v.Signature); k != nil {
			if !seenSig[b.v.Signature] {
				seenSig[b.v.Signature] = true
				msg := fmt.Sprintf("KNOWN-FINDING: property=%s %s [%s]", c.Prop, k.What, b.v.Signature)
				c.Known = append(c.Known, msg)
				fmt.Println(msg)
			}
			continue
		}
		rawSeen[b.v.Signature]++
		if rawSeen[b.v.Signature] > 2 { // shrink at most two raw cases per raw signature
			continue
		}
		ssc, sv := shrinkC16(c, b.sc, b.v, judgeC16)
		if seenSig[sv.Signature] {
			continue
		}
		seenSig[sv.Signature] = true
		if c.report(ssc, sv, judgeC16, nil) {
			violations++
		}
	}

	c.writeEvidence("fault_enumeration", len(outs)+exhaustive, c.Counters["distinct_nontrivial"]+exhaustive,
		"one evaluation = one fc invocation on a simulated disk with 1..3 injected faults (read error, missing or directory input, damaged stored input: truncation/flip/drop/dup/swap/insert/repeat, write error, ENOSPC, finite capacity, destination is a directory) placed on I/O its fault-free twin performs, judged by the exit/diagnostic/file discipline over the recorded I/O history and by a step budget; distinct and non-trivial = scenario hash is new and at least one fault fired or one damaged file was read. Fault-free twins are controls: judged too, reported, not counted. Thorough adds truncation at every offset of every sample (exhaustive, each counted).",
		map[string]any{
			"fault_free_controls":           len(twins),
			"tick_budget_rule":              "B = max(5e7, 100 x largest tick count among this batch's fault-free runs on ordinary (non-stress) inputs)",
			"tick_budget":                   budget,
			"largest_fault_free_run_ticks":  maxFree,
			"input_size_bound_bytes":        c16MaxInput,
			"truncation_every_offset_runs":  exhaustive,
			"simulated_time_covered_ticks":  c.TotalTicks,
			"fault_kinds":                   c16FaultKinds,
			"real_directory_leg":            "a sample of the fault-free twins (1 in 25; a third of them with outputs of an earlier, longer run present and newer than the sources, a third with one output path replaced by a symlink to /dev/full and the matching write error in the simulated run) and of the fault runs whose faults a real directory can show (missing / directory input, damaged stored input, destination is a directory) is repeated with the shipped, uninstrumented fc on a real directory holding the disk image; it must exit in the same class and leave every file as the simulated run stored it; a shipped binary still running after the 90 s watchdog while the simulated run ended within a tenth of the step budget is reported as real-disk:hang. Counts: counters real_directory_*",
			"stress_schemas":                "1 scenario in 60 is a stress schema (record diamond, union chains, nested instantiation, tuple doubling, nested lambdas / ifs / matches / slices / constructors / record literals, long pipeline, wide record / union / parameter list, unannotated call chain; size 3..40); exhaustion on such an input is signed by schema family",
		},
		[]string{"crash/restart and lying storage are not modelled (no property speaks about a killed fc)",
			"a Go panic that ends the process with status 2 and a message counts as a diagnostic, not as a runtime fatal error",
			"which diagnostic is printed, and acceptance of damaged input that still parses, are not judged"},
		violations)
	finish(c, violations)
}

// loopOwner: the child prints two stack samples about a million ticks apart when the budget runs out. The
// frames they share from the outside in end at the function whose loop (or unbounded recursion) does not
// terminate; that function is the signature of the finding. Returns it and the last shared frames.
func loopOwner(stderr string) (string, []string) {
	a, b := stderr, ""
	if i := strings.Index(stderr, "=== verif stack 2 ==="); i >= 0 {
		a, b = stderr[:i], stderr[i:]
	}
	rev := func(s string) []string {
		var fs []string
		for _, f := range stackFuncs(s) {
			if f != "main.verifTick" {
				fs = append(fs, f)
			}
		}
		for i, j := 0, len(fs)-1; i < j; i, j = i+1, j-1 {
			fs[i], fs[j] = fs[j], fs[i]
		}
		return fs
	}
	fa, fb := rev(a), rev(b)
	if len(fa) == 0 {
		return "?", nil
	}
	if len(fb) == 0 {
		return fa[len(fa)-1], tailStrs(fa, 5)
	}
	n := 0
	for n < len(fa) && n < len(fb) && fa[n] == fb[n] {
		n++
	}
	if n == 0 {
		return "?", nil
	}
	return reFuncN.ReplaceAllString(fa[n-1], ""), tailStrs(fa[:n], 5)
}

func tailStrs(xs []string, n int) []string {
	if len(xs) > n {
		return xs[len(xs)-n:]
	}
	return xs
}

// devFullUsable: /dev/full must be the character device that fails every write with ENOSPC; anywhere it is not,
// the sub-leg is skipped rather than guessed at.
func devFullUsable() bool {
	st, err := os.Stat("/dev/full")
	if err != nil || st.Mode()&os.ModeCharDevice == 0 {
		return false
	}
	f, err := os.OpenFile("/dev/full", os.O_WRONLY, 0)
	if err != nil {
		return false
	}
	defer f.Close()
	_, werr := f.Write([]byte("x"))
	return werr != nil
}
