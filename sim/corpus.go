package main

import (
	"fmt"
	"go/ast"
	"go/parser"
	"go/token"
	"os"
	"path/filepath"
	"strconv"
	"strings"
)

// Program is one fc invocation over a disk image: the unit every fc-level check works on.
type Program struct {
	Name string
	Argv []string
	Disk Disk
	// Outputs are the gen_*.go paths a successful run must write, in argv order.
	Outputs []string
}

func mustRead(path string) []byte {
	b, err := os.ReadFile(path)
	if err != nil {
		harnessFail("read %s: %v", path, err)
	}
	return b
}

func outputFor(arg string) (string, bool) {
	if !strings.HasSuffix(arg, ".fo") {
		return "", false
	}
	base := strings.TrimSuffix(filepath.Base(arg), ".fo")
	return filepath.Join(filepath.Dir(arg), "gen_"+base+".go"), true
}

func expectedOutputs(argv []string) []string {
	var out []string
	for _, a := range argv {
		if o, ok := outputFor(a); ok {
			out = append(out, o)
		}
	}
	return out
}

func newProgram(name string, argv []string, files map[string][]byte, origin string) *Program {
	p := &Program{Name: name, Argv: argv}
	for _, path := range sortedKeys(files) {
		p.Disk.Put(path, files[path], origin)
	}
	p.Outputs = expectedOutputs(argv)
	return p
}

// selfBuildArgs parses fc/fc_all.sh: the argument list of the self-build, as paths from the repo root.
func selfBuildArgs(repo string) []string {
	sh := string(mustRead(filepath.Join(repo, "fc", "fc_all.sh")))
	pkgInfo := ""
	var args []string
	for _, line := range strings.Split(sh, "\n") {
		line = strings.TrimSpace(line)
		if strings.HasPrefix(line, "PKG_INFO=") {
			pkgInfo = strings.TrimPrefix(line, "PKG_INFO=")
		}
		if strings.HasPrefix(line, "./fc ") {
			for _, a := range strings.Fields(line)[1:] {
				if a == "$PKG_INFO" {
					a = pkgInfo
				}
				args = append(args, filepath.Clean(filepath.Join("fc", a)))
			}
		}
	}
	if len(args) < 2 {
		harnessFail("cannot find the fc command line in fc/fc_all.sh")
	}
	return args
}

func corpusSelfBuild(repo string) *Program {
	args := selfBuildArgs(repo)
	files := map[string][]byte{}
	for _, a := range args {
		files[a] = mustRead(filepath.Join(repo, a))
	}
	return newProgram("self-build", args, files, "corpus")
}

// sampleList returns the .fo names of samples/filelist.txt in order.
func sampleList(repo string) []string {
	var out []string
	for _, line := range strings.Split(string(mustRead(filepath.Join(repo, "samples", "filelist.txt"))), "\n") {
		if strings.TrimSpace(line) == "" {
			continue
		}
		out = append(out, strings.Fields(line)[0])
	}
	return out
}

func corpusSamples(repo string) []*Program {
	var out []*Program
	foi := mustRead(filepath.Join(repo, "pkg", "pkg_all.foi"))
	for _, name := range sampleList(repo) {
		p := filepath.Join("samples", name)
		out = append(out, newProgram("sample:"+name, []string{"pkg/pkg_all.foi", p},
			map[string][]byte{"pkg/pkg_all.foi": foi, p: mustRead(filepath.Join(repo, p))}, "corpus"))
	}
	return out
}

func corpusTool(repo string) *Program {
	p := "cmd/build_sample_md/build_sample_md.fo"
	return newProgram("tool:build_sample_md", []string{"pkg/pkg_all.foi", p},
		map[string][]byte{"pkg/pkg_all.foi": mustRead(filepath.Join(repo, "pkg", "pkg_all.foi")), p: mustRead(filepath.Join(repo, p))}, "corpus")
}

// corpusSnippets pulls the complete programs out of fc/fc_parser_test.go: every string literal that starts
// with "package " — small programs the maintainers keep (mostly) accepted, one per language feature.
func corpusSnippets(repo string) []*Program {
	path := filepath.Join(repo, "fc", "fc_parser_test.go")
	fset := token.NewFileSet()
	f, err := parser.ParseFile(fset, path, nil, 0)
	if err != nil {
		return nil // the test file is not ours to require
	}
	seen := map[string]bool{}
	var out []*Program
	ast.Inspect(f, func(n ast.Node) bool {
		lit, ok := n.(*ast.BasicLit)
		if !ok || lit.Kind != token.STRING {
			return true
		}
		s, err := strconv.Unquote(lit.Value)
		if err != nil || !strings.HasPrefix(strings.TrimLeft(s, " \n"), "package ") || seen[s] {
			return true
		}
		seen[s] = true
		name := fmt.Sprintf("snippet:%d", fset.Position(lit.Pos()).Line)
		out = append(out, newProgram(name, []string{"t/snip.fo"}, map[string][]byte{"t/snip.fo": []byte(s)}, "corpus:fc_parser_test.go"))
		return true
	})
	return out
}

func (p *Program) scenario(prop string, seed uint64, run int) *Scenario {
	return &Scenario{V: 1, Property: prop, Seed: seed, Run: run, Program: "fc", Argv: append([]string{}, p.Argv...),
		Disk: p.Disk.Clone(), Enum: EnumSched{Mode: "identity"}, Note: p.Name}
}
