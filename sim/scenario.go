package main

import (
	"bytes"
	"context"
	"crypto/sha256"
	"encoding/base64"
	"encoding/hex"
	"encoding/json"
	"fmt"
	"os"
	"os/exec"
	"path/filepath"
	"sort"
	"strings"
	"syscall"
	"time"
)

// ---- scenario / replay file (DESIGN Appendix A) ----

type Damage struct {
	Kind string `json:"kind"` // truncate, flip, drop, dup, swap, insert
	Off  int    `json:"off"`
	Len  int    `json:"len,omitempty"`
	Off2 int    `json:"off2,omitempty"`
	Text string `json:"text,omitempty"`
}

type SFile struct {
	B64    string   `json:"b64"`
	Origin string   `json:"origin,omitempty"`
	Damage []Damage `json:"damage,omitempty"`
}

type Disk struct {
	Dirs     []string          `json:"dirs"`
	Files    map[string]*SFile `json:"files"`
	Capacity int64             `json:"capacity,omitempty"`
	// Links (real-directory runs only): path -> symlink target, e.g. an output path pointing at /dev/full, which
	// is how a real directory shows "the disk is full" for one file. The simulated disk ignores them.
	Links map[string]string `json:"links,omitempty"`
	// OutputsOlder (real-directory runs only): pre-existing outputs (gen_*.go, README.md) get a modification time
	// before the sources instead of after them (the default: what an earlier run leaves behind).
	OutputsOlder bool `json:"outputs_older,omitempty"`
}

type EnumSched struct {
	Mode     string           `json:"mode"`
	Seed     uint64           `json:"seed,omitempty"`
	Style    string           `json:"style,omitempty"`
	OnlySite string           `json:"only_site,omitempty"`
	From     int              `json:"from,omitempty"`
	To       int              `json:"to,omitempty"`
	Tape     map[string][]int `json:"tape,omitempty"`
}

type Fault struct {
	Op    string `json:"op"`
	Nth   int    `json:"nth"`
	Kind  string `json:"kind"`
	After int    `json:"after,omitempty"`
}

type Expect struct {
	Class     string `json:"class"`
	Signature string `json:"signature"`
	Detail    string `json:"detail,omitempty"`
}

type Scenario struct {
	V          int       `json:"v"`
	Property   string    `json:"property"`
	Seed       uint64    `json:"seed"`
	Run        int       `json:"run"`
	Program    string    `json:"program"` // "fc" or "build_sample_md"
	Argv       []string  `json:"argv"`
	Disk       Disk      `json:"disk"`
	Enum       EnumSched `json:"enum"`
	Faults     []Fault   `json:"faults"`
	TickBudget int64     `json:"tick_budget,omitempty"`
	// NsPerTick: speed of the simulated wall clock (0/1: one nanosecond per tick; large: a slow or stalled machine)
	NsPerTick int64 `json:"ns_per_tick,omitempty"`
	// Env: extra environment variables of the child (the environment is part of what a run may not depend on)
	Env []string `json:"env,omitempty"`
	Log        string    `json:"log,omitempty"`
	Note       string    `json:"note,omitempty"`
	// Real: judge the shipped (tag-off, uninstrumented) binary on a real directory holding the disk image
	// instead of the simulated run (fault-free scenarios only; deterministic, so it replays).
	Real bool `json:"real,omitempty"`
	// Extra carries property-specific replay data (e.g. the C07 variant description).
	Extra  json.RawMessage `json:"extra,omitempty"`
	Expect *Expect         `json:"expect,omitempty"`
}

func (d *Disk) Put(path string, content []byte, origin string) {
	if d.Files == nil {
		d.Files = map[string]*SFile{}
	}
	d.Files[path] = &SFile{B64: base64.StdEncoding.EncodeToString(content), Origin: origin}
	dir := filepath.Dir(path)
	for dir != "." && dir != "/" {
		found := false
		for _, x := range d.Dirs {
			if x == dir {
				found = true
			}
		}
		if !found {
			d.Dirs = append(d.Dirs, dir)
		}
		dir = filepath.Dir(dir)
	}
	sort.Strings(d.Dirs)
}

func (d *Disk) Get(path string) ([]byte, bool) {
	f, ok := d.Files[path]
	if !ok {
		return nil, false
	}
	b, _ := base64.StdEncoding.DecodeString(f.B64)
	return b, true
}

func (d *Disk) Clone() Disk {
	n := Disk{Capacity: d.Capacity, Dirs: append([]string{}, d.Dirs...), Files: map[string]*SFile{}, OutputsOlder: d.OutputsOlder}
	if len(d.Links) > 0 {
		n.Links = map[string]string{}
		for k, v := range d.Links {
			n.Links[k] = v
		}
	}
	for k, v := range d.Files {
		c := *v
		c.Damage = append([]Damage{}, v.Damage...)
		n.Files[k] = &c
	}
	return n
}

func (s *Scenario) Clone() *Scenario {
	n := *s
	n.Argv = append([]string{}, s.Argv...)
	n.Disk = s.Disk.Clone()
	n.Faults = append([]Fault{}, s.Faults...)
	n.Env = append([]string{}, s.Env...)
	n.Enum.Tape = map[string][]int{}
	for k, v := range s.Enum.Tape {
		n.Enum.Tape[k] = append([]int{}, v...)
	}
	if len(n.Enum.Tape) == 0 {
		n.Enum.Tape = nil
	}
	n.Expect = nil
	return &n
}

// Hash identifies what a run does (program, argv, disk, schedule, faults), not its bookkeeping fields.
func (s *Scenario) Hash() string {
	c := s.Clone()
	c.Seed, c.Run, c.Log, c.Note, c.Property = 0, 0, "", "", ""
	for _, f := range c.Disk.Files {
		f.Origin = ""
		f.Damage = nil
	}
	b, _ := json.Marshal(c)
	h := sha256.Sum256(b)
	return hex.EncodeToString(h[:8])
}

func hashBytes(parts ...[]byte) string {
	h := sha256.New()
	for _, p := range parts {
		h.Write(p)
		h.Write([]byte{0})
	}
	return hex.EncodeToString(h.Sum(nil)[:8])
}

// ---- events and results ----

type Event struct {
	T      int64  `json:"t"`
	Op     string `json:"op"`
	I      int    `json:"i,omitempty"`
	Path   string `json:"path,omitempty"`
	Ok     bool   `json:"ok,omitempty"`
	N      int    `json:"n,omitempty"`
	Len    int    `json:"len,omitempty"`
	Stored int    `json:"stored,omitempty"`
	Data   string `json:"data,omitempty"`
	Fault  string `json:"fault,omitempty"`
	Why    string `json:"why,omitempty"`
	K      int    `json:"k,omitempty"`
	Fn     string `json:"fn,omitempty"`
	Site   string `json:"site,omitempty"`
	Perm   []int  `json:"perm,omitempty"`
	Note   string `json:"note,omitempty"`
}

type Result struct {
	Exit     int    // exit status, -1 if killed by a signal
	Signal   string // signal name when killed
	Watchdog bool   // killed by the wall-clock watchdog: inconclusive, never a violation
	Stdout   string
	Stderr   string
	Events   []Event
	Ticks    int64 // tick of the "done" event, else of the last event
	Done     bool  // main returned
	Budget   bool  // tick budget exceeded (exit 97)
	WallS    float64
}

func (r *Result) Reads() []Event  { return r.filter("read") }
func (r *Result) Writes() []Event { return r.filter("write") }
func (r *Result) Enums() []Event  { return r.filter("enum") }

func (r *Result) filter(op string) []Event {
	var out []Event
	for _, e := range r.Events {
		if e.Op == op {
			out = append(out, e)
		}
	}
	return out
}

// FinalFiles replays the write events over the scenario's disk image: what is on the simulated disk at exit.
func (r *Result) FinalFiles(sc *Scenario) map[string][]byte {
	out := map[string][]byte{}
	for p := range sc.Disk.Files {
		b, _ := sc.Disk.Get(p)
		out[filepath.Clean(p)] = b
	}
	for _, e := range r.Writes() {
		if e.Stored >= 0 {
			b, _ := base64.StdEncoding.DecodeString(e.Data)
			out[e.Path] = b
		}
	}
	return out
}

// Written returns path -> bytes of the last store of every path a write event stored something to
// (including torn stores).
func (r *Result) Written() map[string][]byte {
	out := map[string][]byte{}
	for _, e := range r.Writes() {
		if e.Stored >= 0 {
			b, _ := base64.StdEncoding.DecodeString(e.Data)
			out[e.Path] = b
		}
	}
	return out
}

// EnumTraceHash identifies the interleaving a run went through: the (site, fn, n, permutation) sequence.
func (r *Result) EnumTraceHash() string {
	var sb strings.Builder
	for _, e := range r.Enums() {
		fmt.Fprintf(&sb, "%s|%s|%d|%v;", e.Site, e.Fn, e.N, e.Perm)
	}
	return hashBytes([]byte(sb.String()))
}

func isIdentityPerm(p []int) bool {
	for i, x := range p {
		if x != i {
			return false
		}
	}
	return true
}

// PermutedPoints counts enumeration points that were really permuted.
func (r *Result) PermutedPoints() int {
	n := 0
	for _, e := range r.Enums() {
		if !isIdentityPerm(e.Perm) {
			n++
		}
	}
	return n
}

// TapeOf turns the enumeration a run went through into an explicit tape (non-identity points only).
func (r *Result) TapeOf() map[string][]int {
	t := map[string][]int{}
	for _, e := range r.Enums() {
		if !isIdentityPerm(e.Perm) {
			t[fmt.Sprint(e.K)] = append([]int{}, e.Perm...)
		}
	}
	return t
}

const watchdog = 90 * time.Second
const maxCapture = 1 << 20

type capWriter struct {
	buf bytes.Buffer
}

func (c *capWriter) Write(p []byte) (int, error) {
	if room := maxCapture - c.buf.Len(); room > 0 {
		if len(p) <= room {
			c.buf.Write(p)
		} else {
			c.buf.Write(p[:room])
		}
	}
	return len(p), nil
}

var runSeq int64

// RunSim executes one simulated run in a fresh OS process and returns everything it did.
func RunSim(binary string, sc *Scenario, workDir string) *Result {
	return RunSimEnv(binary, sc, workDir, "1")
}

// RunSimEnv is RunSim with the child's GOMAXPROCS chosen by the caller (determinism self-test).
func RunSimEnv(binary string, sc *Scenario, workDir string, gomaxprocs string) *Result {
	t0 := time.Now()
	dir, err := os.MkdirTemp(workDir, "run-")
	if err != nil {
		harnessFail("mktemp run dir: %v", err)
	}
	defer os.RemoveAll(dir)
	cwd := filepath.Join(dir, "cwd")
	os.Mkdir(cwd, 0755)
	c := *sc
	c.Log = filepath.Join(dir, "events.log")
	c.Expect = nil
	raw, err := json.Marshal(&c)
	if err != nil {
		harnessFail("marshal scenario: %v", err)
	}
	scPath := filepath.Join(dir, "scenario.json")
	if err := os.WriteFile(scPath, raw, 0644); err != nil {
		harnessFail("write scenario: %v", err)
	}
	ctx, cancel := context.WithTimeout(context.Background(), watchdog)
	defer cancel()
	cmd := limitedCommand(ctx, binary, sc.Argv)
	cmd.Dir = cwd
	cmd.Env = append([]string{"VERIF_SIM=" + scPath, "GOMAXPROCS=" + gomaxprocs, "GOTRACEBACK=single", "PATH=/usr/bin:/bin"}, sc.Env...)
	var so, se capWriter
	cmd.Stdout = &so
	cmd.Stderr = &se
	runErr := cmd.Run()
	res := &Result{Stdout: so.buf.String(), Stderr: se.buf.String()}
	if ctx.Err() == context.DeadlineExceeded {
		res.Watchdog = true
	}
	if runErr != nil {
		if ee, ok := runErr.(*exec.ExitError); ok {
			ws := ee.Sys().(syscall.WaitStatus)
			if ws.Signaled() {
				res.Exit = -1
				res.Signal = ws.Signal().String()
			} else {
				res.Exit = ws.ExitStatus()
			}
		} else {
			harnessFail("cannot run %s: %v", binary, runErr)
		}
	}
	if res.Exit == 98 {
		harnessFail("seam refused the scenario: %s", res.Stderr)
	}
	if logb, err := os.ReadFile(c.Log); err == nil {
		for _, line := range bytes.Split(logb, []byte{'\n'}) {
			if len(line) == 0 {
				continue
			}
			var e Event
			if err := json.Unmarshal(line, &e); err != nil {
				harnessFail("bad event line %q: %v", line, err)
			}
			res.Events = append(res.Events, e)
			if e.T > res.Ticks {
				res.Ticks = e.T
			}
			if e.Op == "done" {
				res.Done = true
			}
			if e.Op == "budget" {
				res.Budget = true
			}
		}
	}
	res.WallS = time.Since(t0).Seconds()
	return res
}

// RunReal executes the shipped (tag-off, uninstrumented) binary on a real directory holding the
// scenario's disk image and reports exit status, output and every file that differs afterwards.
type RealResult struct {
	Exit     int
	Signal   string
	Watchdog bool
	Stdout   string
	Stderr   string
	Changed  map[string][]byte // path -> new content for created or modified files
}

func RunReal(binary string, sc *Scenario, workDir string) *RealResult {
	dir, err := os.MkdirTemp(workDir, "real-")
	if err != nil {
		harnessFail("mktemp real dir: %v", err)
	}
	defer os.RemoveAll(dir)
	for _, d := range sc.Disk.Dirs {
		os.MkdirAll(filepath.Join(dir, d), 0755)
	}
	// modification times are part of the scenario, not of the order the harness happens to write files in: sources
	// one hour in the past, pre-existing outputs one hour in the future (newer than the sources and than the
	// binary, as after an earlier run) unless the scenario says older
	t0 := time.Now().Add(-time.Hour)
	for _, p := range sortedKeys(sc.Disk.Files) {
		b, _ := sc.Disk.Get(p)
		full := filepath.Join(dir, p)
		os.MkdirAll(filepath.Dir(full), 0755)
		if err := os.WriteFile(full, b, 0644); err != nil {
			harnessFail("materialise %s: %v", p, err)
		}
		mt := t0
		base := filepath.Base(p)
		if (strings.HasPrefix(base, "gen_") && strings.HasSuffix(base, ".go")) || base == "README.md" {
			mt = t0.Add(2 * time.Hour)
			if sc.Disk.OutputsOlder {
				mt = t0.Add(-2 * time.Hour)
			}
		}
		os.Chtimes(full, mt, mt)
	}
	for _, p := range sortedKeys(sc.Disk.Links) {
		full := filepath.Join(dir, p)
		os.MkdirAll(filepath.Dir(full), 0755)
		os.Remove(full)
		if err := os.Symlink(sc.Disk.Links[p], full); err != nil {
			harnessFail("materialise link %s: %v", p, err)
		}
	}
	ctx, cancel := context.WithTimeout(context.Background(), watchdog)
	defer cancel()
	cmd := limitedCommand(ctx, binary, sc.Argv)
	cmd.Dir = dir
	cmd.Env = []string{"GOTRACEBACK=single", "PATH=/usr/bin:/bin"}
	var so, se capWriter
	cmd.Stdout = &so
	cmd.Stderr = &se
	runErr := cmd.Run()
	res := &RealResult{Stdout: so.buf.String(), Stderr: se.buf.String(), Changed: map[string][]byte{}}
	if ctx.Err() == context.DeadlineExceeded {
		res.Watchdog = true
	}
	if runErr != nil {
		if ee, ok := runErr.(*exec.ExitError); ok {
			ws := ee.Sys().(syscall.WaitStatus)
			if ws.Signaled() {
				res.Exit = -1
				res.Signal = ws.Signal().String()
			} else {
				res.Exit = ws.ExitStatus()
			}
		} else {
			harnessFail("cannot run %s: %v", binary, runErr)
		}
	}
	filepath.Walk(dir, func(p string, info os.FileInfo, err error) error {
		if err != nil || info.IsDir() || info.Mode()&os.ModeSymlink != 0 {
			return nil
		}
		rel, _ := filepath.Rel(dir, p)
		b, _ := os.ReadFile(p)
		if old, ok := sc.Disk.Get(rel); !ok || !bytes.Equal(old, b) {
			res.Changed[rel] = b
		}
		return nil
	})
	return res
}

func loadScenario(path string) (*Scenario, error) {
	b, err := os.ReadFile(path)
	if err != nil {
		return nil, err
	}
	var sc Scenario
	if err := json.Unmarshal(b, &sc); err != nil {
		return nil, err
	}
	return &sc, nil
}

func saveScenario(path string, sc *Scenario) {
	os.MkdirAll(filepath.Dir(path), 0755)
	b, err := json.MarshalIndent(sc, "", " ")
	if err != nil {
		harnessFail("marshal replay: %v", err)
	}
	if err := os.WriteFile(path, append(b, '\n'), 0644); err != nil {
		harnessFail("write replay: %v", err)
	}
}

// childMemKB bounds the address space of every child (ulimit -v): the sandbox has no memory limit of its own and
// an input that makes fc allocate exponentially must end as the child's "out of memory" fatal error, not as the
// kernel's OOM killer picking a victim.
const childMemKB = 3 * 1024 * 1024

func limitedCommand(ctx context.Context, binary string, argv []string) *exec.Cmd {
	args := append([]string{"-c", fmt.Sprintf("ulimit -v %d; exec \"$0\" \"$@\"", childMemKB), binary}, argv...)
	return exec.CommandContext(ctx, "/bin/sh", args...)
}
