package main

import (
	"encoding/json"
	"fmt"
	"os"
	"path/filepath"
	"regexp"
	"strings"

	"fosim/common"
)

// ---- determinism self-test (DESIGN 5): the simulator is proved deterministic before it is trusted ----

var reHex = regexp.MustCompile(`0x[0-9a-f]+`)
var reGoroutine = regexp.MustCompile(`goroutine \d+`)

func resultDigest(r *Result) string {
	ev, _ := json.Marshal(r.Events)
	se := reGoroutine.ReplaceAllString(reHex.ReplaceAllString(r.Stderr, "0x#"), "goroutine #")
	return hashBytes([]byte(fmt.Sprint(r.Exit, r.Signal)), []byte(r.Stdout), []byte(se), ev)
}

func selftestDeterminism() {
	c := newCtx("SELFTEST", "quick", "fc", "bsm")
	pkgAllFoi = mustRead(filepath.Join(c.B.Repo, "pkg", "pkg_all.foi"))
	readme := mustRead(filepath.Join(c.B.Repo, "samples", "README.md"))
	if i := strings.Index(string(readme), "###"); i > 0 {
		c18Header = readme[:i]
	}
	n := 64
	if v := os.Getenv("VERIF_SELFTEST_N"); v != "" {
		fmt.Sscan(v, &n)
	}
	type job struct {
		bin string
		sc  *Scenario
	}
	build := func(workers int) []job {
		save := c.Workers
		c.Workers = workers
		defer func() { c.Workers = save }()
		var jobs []job
		// C05: generated and corpus programs under seeded schedules
		progs := append([]*Program{corpusSelfBuild(c.B.Repo), corpusTool(c.B.Repo)}, corpusSamples(c.B.Repo)...)
		for i := 0; i < n; i++ {
			progs = append(progs, genProgramC05(common.NewRng(common.Mix(c.Seed, 505, uint64(i))), i))
		}
		for i, p := range progs {
			sc := p.scenario("C05", c.Seed, i)
			sc.Enum = EnumSched{Mode: "seeded", Seed: common.Mix(c.Seed, 9, uint64(i)), Style: enumStyles[i%len(enumStyles)]}
			sc.TickBudget = c05Budget
			jobs = append(jobs, job{c.B.FcVerif, sc})
		}
		// C16: fault scenarios (twins computed on the pool under test)
		pools := [][]*Program{append(corpusSamples(c.B.Repo), corpusTool(c.B.Repo)), corpusSnippets(c.B.Repo), c05HandCorpus()}
		bases := make([]*Scenario, n)
		twins := parallel(c, n, func(i int) *Result {
			r := common.NewRng(common.Mix(c.Seed, 16, uint64(i)))
			sc := c16BaseScenario(c, r, i, pools)
			sc.TickBudget = c16BudgetFloor
			bases[i] = sc
			return RunSim(c.B.FcVerif, sc, c.Work)
		}, nil)
		for i := 0; i < n; i++ {
			r := common.NewRng(common.Mix(c.Seed, 1616, uint64(i)))
			enabled := map[string]bool{}
			for _, k := range c16FaultKinds {
				if r.Chance(1, 3) {
					enabled[k] = true
				}
			}
			if len(enabled) == 0 {
				enabled["damage"] = true
			}
			sc := c16AddFaults(r, bases[i], twins[i], enabled)
			sc.TickBudget = c16BudgetFloor
			jobs = append(jobs, job{c.B.FcVerif, sc})
		}
		// C18
		for i := 0; i < n; i++ {
			sc := c18Scenario(c, common.NewRng(common.Mix(c.Seed, 18, uint64(i))), i)
			if i%2 == 1 {
				sc.Faults = append(sc.Faults, Fault{Op: "read", Nth: 1 + i%5, Kind: "error"})
			}
			sc.TickBudget = 100_000_000
			jobs = append(jobs, job{c.B.BsmVerif, sc})
		}
		// C07: variants
		for i := 0; i < n/2; i++ {
			sc := c07Generated(c, common.NewRng(common.Mix(c.Seed, 7, uint64(i))), i)
			vs, _ := c07Variant(sc)
			vs.TickBudget = c05Budget
			jobs = append(jobs, job{c.B.FcVerif, vs})
		}
		return jobs
	}
	c.phase("building the scenario list with 1 and with 16 workers")
	jobs1 := build(1)
	jobs16 := build(16)
	bad := 0
	if len(jobs1) != len(jobs16) {
		fmt.Println("scenario lists differ in length between worker counts")
		bad++
	} else {
		for i := range jobs1 {
			if jobs1[i].sc.Hash() != jobs16[i].sc.Hash() {
				fmt.Printf("scenario %d differs between worker counts 1 and 16\n", i)
				bad++
			}
		}
	}
	c.phase(fmt.Sprintf("running %d scenarios 6 times each (GOMAXPROCS 1,4,16 x 2)", len(jobs1)))
	gmp := []string{"1", "4", "16", "1", "4", "16"}
	type out struct {
		digests []string
		points  int
	}
	outs := parallel(c, len(jobs1), func(i int) out {
		var o out
		for _, g := range gmp {
			r := RunSimEnv(jobs1[i].bin, jobs1[i].sc, c.Work, g)
			if r.Watchdog {
				harnessFail("watchdog during self-test")
			}
			o.digests = append(o.digests, resultDigest(r))
			o.points = len(r.Enums())
		}
		return o
	}, nil)
	points := 0
	for i, o := range outs {
		points += o.points
		for _, d := range o.digests[1:] {
			if d != o.digests[0] {
				fmt.Printf("NONDETERMINISTIC: scenario %d (%s, %s) gave different event logs / output across runs: %v\n", i, jobs1[i].sc.Property, jobs1[i].sc.Note, o.digests)
				path := filepath.Join(verifDir, "replays", fmt.Sprintf("tmp-nondeterministic-%d.json", i))
				saveScenario(path, jobs1[i].sc)
				bad++
				break
			}
		}
	}
	fmt.Printf("selftest-determinism: %d scenarios x %d runs, %d enumeration points per pass, %d divergences\n", len(outs), len(gmp), points, bad)
	c.Close()
	cleanupAll()
	if bad > 0 {
		os.Exit(2)
	}
	os.Exit(0)
}
