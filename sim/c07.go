package main

import (
	"bytes"
	"encoding/json"
	"fmt"
	"os"
	"path/filepath"
	"regexp"
	"sort"
	"strings"
	"sync"

	"fosim/common"
)

// ---- C07: a definition's translation depends only on itself and what it references (history search) ----

type c07Extra struct {
	Kind    string   `json:"kind"` // which transformations produced the variant; "closure" for the closure rule
	Argv    []string `json:"argv"`
	Disk    Disk     `json:"disk"`
	History string   `json:"history,omitempty"` // human-readable description
	// Ref is the variant's item set in generation order in one file (absent when that is the base itself):
	// the variant must agree with it on acceptance, whatever was permuted or re-cut.
	RefArgv []string `json:"ref_argv,omitempty"`
	RefDisk *Disk    `json:"ref_disk,omitempty"`
	// Items (closure rule): the program's items with their dependencies. A rejected program must contain a
	// definition that is rejected with nothing but what it references in front of it.
	Items []seqItem `json:"items,omitempty"`
	// RealStale: the variant is also run by the shipped fc on a real directory that already holds an (old, newer
	// than the sources) gen_X.go for every X.fo argument; each must come out as in the simulated run.
	RealStale bool `json:"real_stale,omitempty"`
}

// c07LastItems hands the item list of a generated pair to the closure rule without putting it into every scenario.
var c07LastItems sync.Map

var reTmp = regexp.MustCompile(`_v[0-9]+`)

func normTmp(s string) string { return reTmp.ReplaceAllString(s, "_v#") }

// goDecls maps a declaration key (func f, method (R) m, var v, type T) to its source text. fc emits every
// top-level declaration starting at column 0 with func / type / var, so the file is cut textually at those lines:
// no Go parser is involved, and a definition whose own translation is not valid Go (not this property's business)
// cannot hide or distort its neighbours. Always returns true (kept for the callers' shape).
var reDeclStart = regexp.MustCompile(`^(?:func (\([^)]*\) )?([A-Za-z_][A-Za-z0-9_]*)[\[(]|type ([A-Za-z_][A-Za-z0-9_]*)[ \[]|var ([A-Za-z_][A-Za-z0-9_]*) )`)

func goDecls(src []byte, into map[string]string) bool {
	lines := strings.SplitAfter(string(src), "\n")
	key, pkg := "", ""
	var cur strings.Builder
	flush := func() {
		if key != "" {
			key = pkg + key
			if old, dup := into[key]; dup {
				into[key] = old + "\n" + strings.TrimSpace(cur.String())
			} else {
				into[key] = strings.TrimSpace(cur.String())
			}
		}
		cur.Reset()
	}
	for _, l := range lines {
		if m := reDeclStart.FindStringSubmatch(l); m != nil {
			flush()
			switch {
			case m[2] != "" && m[1] != "":
				key = "method " + strings.TrimSpace(m[1]) + " " + m[2]
			case m[2] != "":
				key = "func " + m[2]
			case m[3] != "":
				key = "type " + m[3]
			default:
				key = "var " + m[4]
			}
		} else if strings.HasPrefix(l, "import ") || strings.HasPrefix(l, "package ") {
			flush()
			key = ""
			if strings.HasPrefix(l, "package ") {
				// declarations of another package than main are another name space
				if pkg = strings.TrimSpace(strings.TrimPrefix(l, "package ")); pkg == "main" {
					pkg = ""
				} else {
					pkg += "."
				}
			}
		}
		cur.WriteString(l)
	}
	flush()
	return true
}

func c07FileSet(sc *Scenario, argv []string, r *Result) *Violation {
	want := map[string]int{}
	for _, a := range argv {
		if o, ok := outputFor(a); ok {
			want[filepath.Clean(o)]++
		}
	}
	got := map[string]int{}
	for _, w := range r.Writes() {
		got[w.Path]++
		if !w.Ok {
			return &Violation{Class: "fileset", Signature: "fileset:failed-write", Detail: "write of " + w.Path + " failed without any injected fault"}
		}
	}
	for p, n := range want {
		if got[p] != n {
			return &Violation{Class: "fileset", Signature: "fileset:missing-or-repeated",
				Detail: fmt.Sprintf("%s written %d times, expected %d (argv %v)", p, got[p], n, argv)}
		}
	}
	for p := range got {
		if want[p] == 0 {
			return &Violation{Class: "fileset", Signature: "fileset:unexpected",
				Detail: fmt.Sprintf("unexpected output %s (argv %v): a .foi argument yields no file, an X.fo argument yields gen_X.go next to it", p, argv)}
		}
	}
	return nil
}

func c07Compare(sc *Scenario, ex *c07Extra, r0, r1 *Result) *Violation {
	if r0.Exit != 0 {
		return nil // base rejected: nothing to compare (counted by the caller)
	}
	if v := c07FileSet(sc, sc.Argv, r0); v != nil {
		return v
	}
	if r1.Exit != 0 {
		return nil
	}
	if v := c07FileSet(sc, ex.Argv, r1); v != nil {
		return v
	}
	d0, d1 := map[string]string{}, map[string]string{}
	for _, p := range sortedKeys(r0.Written()) {
		if !goDecls(r0.Written()[p], d0) {
			return nil // emitted Go of the base does not parse: not this property's business
		}
	}
	for _, p := range sortedKeys(r1.Written()) {
		if !goDecls(r1.Written()[p], d1) {
			return &Violation{Class: "text", Signature: "text:unparseable",
				Detail: fmt.Sprintf("the base program's output parses as Go, the variant's (%s) %s does not", ex.Kind, p)}
		}
	}
	for _, k := range sortedKeys(d0) {
		t1, ok := d1[k]
		if !ok {
			continue
		}
		if normTmp(d0[k]) != normTmp(t1) {
			kind := strings.Fields(k)[0] + ":" + diffClass(normTmp(d0[k]), normTmp(t1))
			return &Violation{Class: "text", Signature: "text:" + kind,
				Detail: fmt.Sprintf("Go emitted for %q differs between the base and the variant (%s): %s", k, ex.Kind, diffSummary([]byte(normTmp(d0[k])), []byte(normTmp(t1))))}
		}
	}
	return nil
}

func c07Variant(sc *Scenario) (*Scenario, *c07Extra) {
	var ex c07Extra
	if err := json.Unmarshal(sc.Extra, &ex); err != nil {
		harnessFail("C07 scenario without variant: %v", err)
	}
	v := sc.Clone()
	v.Argv = ex.Argv
	v.Disk = ex.Disk.Clone()
	v.Extra = nil
	return v, &ex
}

// c07RealStale: "each X.fo argument yields gen_X.go next to it", also when an older gen_X.go is already there.
func c07RealStale(c *Ctx, vs *Scenario) *Violation {
	id := vs.Clone()
	id.Enum = EnumSched{Mode: "identity"}
	r1 := c.sim(c.B.FcVerif, id)
	if r1.Exit != 0 || len(r1.Written()) == 0 {
		return nil
	}
	rs := vs.Clone()
	rs.Real = true
	for _, p := range sortedKeys(r1.Written()) {
		rs.Disk.Put(p, []byte("// output of an earlier run\npackage main\n"), "stale")
	}
	rr := RunReal(c.B.FcOff, rs, c.Work)
	if rr.Exit != 0 {
		return &Violation{Class: "fileset", Signature: "fileset:real-directory-stale-outputs",
			Detail: fmt.Sprintf("accepted in simulation; the shipped fc on a real directory that already holds older outputs exits %d: %s", rr.Exit, tail(rr.Stdout+rr.Stderr, 200))}
	}
	for _, p := range sortedKeys(r1.Written()) {
		if got, ok := rr.Changed[p]; !ok || !bytes.Equal(got, r1.Written()[p]) {
			return &Violation{Class: "fileset", Signature: "fileset:real-directory-stale-outputs",
				Detail: fmt.Sprintf("the shipped fc on a real directory that already holds an older %s (newer than the sources) does not leave there what the same invocation writes otherwise (rewritten: %v)", p, ok)}
		}
	}
	return nil
}

func judgeC07(c *Ctx, sc *Scenario) *Violation {
	vs, ex := c07Variant(sc)
	if ex.Kind == "closure" {
		return c07Closure(c, sc, ex)
	}
	if ex.RealStale {
		return c07RealStale(c, vs)
	}
	base := sc.Clone()
	base.Extra = nil
	r0 := c.sim(c.B.FcVerif, base)
	r1 := c.sim(c.B.FcVerif, vs)
	var rr *Result
	if ex.RefDisk != nil {
		ref := sc.Clone()
		ref.Extra = nil
		ref.Argv = ex.RefArgv
		ref.Disk = ex.RefDisk.Clone()
		rr = c.sim(c.B.FcVerif, ref)
	}
	return c07Judge(sc, ex, r0, rr, r1)
}

// c07Judge: r0 base, rr reference (variant's item set in generation order; nil: the base is the reference),
// r1 variant.
func c07Judge(sc *Scenario, ex *c07Extra, r0, rr, r1 *Result) *Violation {
	ref := rr
	if ref == nil {
		ref = r0
	}
	// same set of definitions, another order / cut: acceptance must not depend on it
	if (ref.Exit == 0) != (r1.Exit == 0) {
		return &Violation{Class: "accept", Signature: "accept:sameset",
			Detail: fmt.Sprintf("the same definitions in generation order in one file exit %d, the variant (%s) exits %d: %s | %s", ref.Exit, ex.Kind, r1.Exit,
				tail(ref.Stdout+ref.Stderr, 200), tail(r1.Stdout+r1.Stderr, 200))}
	}
	if r0.Exit == 0 && ref.Exit != 0 && !strings.Contains(ex.Kind, "insert") {
		return &Violation{Class: "accept", Signature: "accept:delete",
			Detail: fmt.Sprintf("the base program is accepted; after deleting definitions nothing retained depends on it is rejected (exit %d): %s", ref.Exit, tail(ref.Stdout+ref.Stderr, 300))}
	}
	if r0.Exit != 0 || r1.Exit != 0 {
		return nil // nothing to compare (a rejected base, or inserted definitions that are rejected on their own)
	}
	return c07Compare(sc, ex, r0, r1)
}

// closureOf returns the indices of item i and everything it (transitively) depends on, ascending.
func closureOf(items []seqItem, i int) []int {
	in := map[int]bool{i: true}
	stack := []int{i}
	for len(stack) > 0 {
		x := stack[len(stack)-1]
		stack = stack[:len(stack)-1]
		for _, d := range items[x].Deps {
			if !in[d] {
				in[d] = true
				stack = append(stack, d)
			}
		}
	}
	var out []int
	for k := range items {
		if in[k] {
			out = append(out, k)
		}
	}
	return out
}

func closureScenario(sc *Scenario, items []seqItem, idx []int) *Scenario {
	var sb strings.Builder
	sb.WriteString(genHeader)
	for _, k := range idx {
		sb.WriteString(items[k].Text)
	}
	s := &Scenario{V: 1, Property: "C07", Seed: sc.Seed, Run: sc.Run, Program: "fc", Enum: EnumSched{Mode: "identity"}, TickBudget: sc.TickBudget}
	s.Disk.Put("pkg/pkg_all.foi", pkgAllFoi, "corpus")
	s.Disk.Put("k/whole.fo", []byte(sb.String()), "closure")
	s.Argv = []string{"pkg/pkg_all.foi", "k/whole.fo"}
	return s
}

// c07Closure: the whole program (ex.Items in order) is rejected although every single definition is accepted
// when only what it references precedes it: acceptance then depends on unrelated definitions.
func c07Closure(c *Ctx, sc *Scenario, ex *c07Extra) *Violation {
	all := make([]int, len(ex.Items))
	for i := range all {
		all[i] = i
	}
	whole := c.sim(c.B.FcVerif, closureScenario(sc, ex.Items, all))
	if whole.Exit == 0 {
		return nil
	}
	for i := range ex.Items {
		r := c.sim(c.B.FcVerif, closureScenario(sc, ex.Items, closureOf(ex.Items, i)))
		if r.Exit != 0 {
			return nil // this definition is rejected on its own: the whole is legitimately rejected
		}
	}
	return &Violation{Class: "accept", Signature: "accept:whole-rejected-parts-accepted",
		Detail: fmt.Sprintf("a program of %d definitions is rejected (exit %d: %s) although every one of them is accepted when preceded only by what it references", len(ex.Items), whole.Exit, tail(whole.Stdout+whole.Stderr, 200))}
}

// ---- variants over a sequence of items with a dependency relation ----

type seqItem struct {
	Text string `json:"text"`
	Deps []int  `json:"deps,omitempty"` // indices (in the original sequence) this item needs and must stay after
	// After: indices this item must stay after when both are present, without needing them (two records with one
	// field-name set, or a record and an unqualified literal of its field set: moving one across the other would
	// legitimately change which record the literal denotes; deleting one of them is no such move)
	After []int `json:"after,omitempty"`
	Base bool   `json:"base,omitempty"` // belongs to the base program (else: inserted)
}

// topoShuffle returns a random order of the kept items that respects Deps.
func topoShuffle(r *common.Rng, items []seqItem, keep []bool, strength int) []int {
	n := len(items)
	placed := make([]bool, n)
	var order []int
	for {
		var ready []int
		for i := 0; i < n; i++ {
			if !keep[i] || placed[i] {
				continue
			}
			ok := true
			for _, d := range items[i].Deps {
				if keep[d] && !placed[d] {
					ok = false
					break
				}
			}
			for _, d := range items[i].After {
				if keep[d] && !placed[d] {
					ok = false
					break
				}
			}
			if ok {
				ready = append(ready, i)
			}
		}
		if len(ready) == 0 {
			break
		}
		// strength 0: original order; higher: more random
		pick := ready[0]
		if strength > 0 && r.Intn(4) < strength {
			pick = ready[r.Intn(len(ready))]
		}
		placed[pick] = true
		order = append(order, pick)
	}
	return order
}

// closeDeletion extends a deletion set so that nothing retained depends on something deleted.
func closeDeletion(items []seqItem, del []bool) {
	changed := true
	for changed {
		changed = false
		for i := range items {
			if del[i] {
				continue
			}
			for _, d := range items[i].Deps {
				if del[d] {
					del[i] = true
					changed = true
					break
				}
			}
		}
	}
}

func cutSequence(r *common.Rng, texts []string, header string, nfiles int, dirs []string, withFoi bool) (argv []string, files map[string][]byte) {
	files = map[string][]byte{}
	if nfiles > len(texts) {
		nfiles = len(texts)
	}
	if nfiles < 1 {
		nfiles = 1
	}
	cuts := map[int]bool{}
	for len(cuts) < nfiles-1 {
		cuts[1+r.Intn(len(texts)-1)] = true
	}
	idx := 0
	var sb strings.Builder
	style := r.Intn(8)
	flush := func() {
		name := fmt.Sprintf("%s/%s", dirs[idx%len(dirs)], fileName(style, "c", idx))
		files[name] = []byte(header + sb.String())
		argv = append(argv, name)
		idx++
		sb.Reset()
	}
	for i, t := range texts {
		if cuts[i] {
			flush()
		}
		sb.WriteString(t)
	}
	flush()
	return
}

// c07Generated builds one base/variant pair from the generator (exact dependencies).
// c07LaterPackage: files of package main followed by one file of another package that redeclares one of their
// record names, declares a second record with the same fields and uses a literal of them (legal: package scopes
// are separate, the latest declaration wins). The variant is that last file alone: its definitions refer to
// nothing of the earlier files.
func c07LaterPackage(c *Ctx, r *common.Rng, run int) *Scenario {
	o := swarmOpts(r)
	o.Items = r.Range(2, 14)
	o.Generic = false
	g := genItems(r, o, "")
	var cands []*gRec
	for _, rc := range g.recs {
		ok := !rc.Generic && len(rc.Fields) > 0
		for _, f := range rc.Fields {
			if f.T == nil || f.T.K != "int" && f.T.K != "string" && f.T.K != "bool" {
				ok = false
			}
		}
		if ok {
			cands = append(cands, rc)
		}
	}
	if len(cands) == 0 {
		return nil
	}
	rc := cands[r.Intn(len(cands))]
	var fs, lit []string
	for _, f := range rc.Fields {
		fs = append(fs, f.Name+": "+f.T.String())
		lit = append(lit, f.Name+"="+map[string]string{"int": "1", "string": "\"s\"", "bool": "true"}[f.T.K])
	}
	decl := func(n string) string { return "type " + n + " = {" + strings.Join(fs, "; ") + "}\n\n" }
	use := "let zzLit () =\n  {" + strings.Join(lit, "; ") + "}\n\nlet zzGet (v:ZzSame) =\n  v." + rc.Fields[0].Name + "\n"
	var other string
	switch r.Intn(3) {
	case 0:
		other = decl(rc.Name) + decl("ZzSame") + use
	case 1:
		other = decl("ZzFirst") + decl(rc.Name) + decl("ZzSame") + use
	default:
		other = decl(rc.Name) + decl("ZzMid") + decl(rc.Name) + decl("ZzSame") + use
	}
	other = "package other\n\n" + other
	var texts []string
	for _, it := range g.items[1:] {
		texts = append(texts, it.Text)
	}
	bargv, bfiles := cutSequence(r, texts, genHeader, r.Range(1, 3), []string{"b"}, false)
	bfiles["pkg/pkg_all.foi"] = pkgAllFoi
	bfiles["o/other.fo"] = []byte(other)
	base := newProgram(fmt.Sprintf("gen:%d:later-package", run), append(append([]string{"pkg/pkg_all.foi"}, bargv...), "o/other.fo"), bfiles, "gen")
	sc := base.scenario("C07", c.Seed, run)
	vd := Disk{}
	vd.Put("pkg/pkg_all.foi", pkgAllFoi, "corpus")
	vd.Put("o/other.fo", []byte(other), "gen")
	rd := vd.Clone()
	ex := c07Extra{Kind: "delete-earlier-package", Argv: []string{"pkg/pkg_all.foi", "o/other.fo"}, Disk: vd,
		RefArgv: []string{"pkg/pkg_all.foi", "o/other.fo"}, RefDisk: &rd,
		History: "base: files of package main, then o/other.fo of package other redeclaring " + rc.Name + "; variant: o/other.fo alone"}
	b, _ := json.Marshal(ex)
	sc.Extra = b
	return sc
}

func c07Generated(c *Ctx, r *common.Rng, run int) *Scenario {
	if r.Chance(1, 12) {
		if sc := c07LaterPackage(c, r, run); sc != nil {
			return sc
		}
	}
	o := swarmOpts(r)
	o.Items = r.Range(2, 40)
	if o.AndHeavy {
		o.Items = r.Range(20, 70)
	}
	extra := 0
	if r.Chance(1, 2) {
		extra = r.Range(1, 10)
	}
	go2 := o
	go2.Items = o.Items + extra
	go2.Ambiguous = r.Chance(1, 3) // records sharing a field-name set; ordered by the field-set constraints below
	g := genItems(r, go2, "")
	body := g.items[1:]
	nBase := o.Items
	if nBase > len(body) {
		nBase = len(body)
	}
	items := make([]seqItem, len(body))
	for i, it := range body {
		items[i] = seqItem{Text: it.Text, Base: i < nBase}
		for _, ref := range it.Refs {
			if ref >= 1 {
				items[i].Deps = append(items[i].Deps, ref-1)
			}
		}
		// an unqualified record literal denotes the latest declared record with its field set: items that declare
		// and items that use (or declare) the same set keep their relative order
		for j := 0; j < i; j++ {
			if intersects(it.DeclSets, body[j].DeclSets) || intersects(it.UseSets, body[j].DeclSets) || intersects(it.DeclSets, body[j].UseSets) {
				items[i].After = append(items[i].After, j)
			}
		}
	}
	// reach probe: two records with one field-name set, an unqualified literal between their declarations and
	// another one after both
	{
		found := false
		for d2 := 0; d2 < nBase && !found; d2++ {
			for _, k := range body[d2].DeclSets {
				d1, u1, u2 := -1, -1, -1
				for j := 0; j < nBase; j++ {
					switch {
					case j < d2 && contains(body[j].DeclSets, k):
						d1 = j
					case d1 >= 0 && j > d1 && j < d2 && contains(body[j].UseSets, k):
						u1 = j
					case j > d2 && contains(body[j].UseSets, k):
						u2 = j
					}
				}
				if d1 >= 0 && u1 >= 0 && u2 >= 0 {
					found = true
				}
			}
		}
		if found && c.Counters != nil {
			c.count("probe:ambiguous_records_with_literal_between_and_after", 1)
		}
	}
	var baseTexts []string
	for i := 0; i < nBase; i++ {
		baseTexts = append(baseTexts, items[i].Text)
	}
	baseFiles := 1
	if r.Chance(1, 4) {
		baseFiles = r.Range(2, 4)
	}
	bargv, bfiles := cutSequence(r, baseTexts, genHeader, baseFiles, []string{"b"}, false)
	bfiles["pkg/pkg_all.foi"] = pkgAllFoi
	base := newProgram(fmt.Sprintf("gen:%d", run), append([]string{"pkg/pkg_all.foi"}, bargv...), bfiles, "gen")
	sc := base.scenario("C07", c.Seed, run)

	// variant
	var kinds []string
	keep := make([]bool, len(items))
	for i := range keep {
		keep[i] = i < nBase
	}
	if extra > 0 {
		kinds = append(kinds, "insert")
		for i := nBase; i < len(items); i++ {
			keep[i] = true
		}
	}
	if r.Chance(1, 2) {
		del := make([]bool, len(items))
		any := false
		for i := range del {
			if r.Chance(1, 5) {
				del[i] = true
				any = true
			}
		}
		if any {
			closeDeletion(items, del)
			left := 0
			for i := range keep {
				if del[i] {
					keep[i] = false
				}
				if keep[i] {
					left++
				}
			}
			if left == 0 {
				keep[0] = true
			}
			kinds = append(kinds, "delete")
		}
	}
	strength := 0
	if r.Chance(2, 3) {
		strength = r.Range(1, 4)
		kinds = append(kinds, "permute")
	} else if extra > 0 {
		strength = 1 // inserted items must at least be able to move in front of base items
	}
	order := topoShuffle(r, items, keep, strength)
	var vtexts []string
	for _, i := range order {
		vtexts = append(vtexts, items[i].Text)
	}
	nfiles := 1
	if r.Chance(1, 2) {
		nfiles = r.Range(2, 8)
		kinds = append(kinds, "recut")
	}
	// package_info blocks that depend on nothing may live in a .foi argument (contributes declarations, yields no file)
	var foiText strings.Builder
	if r.Chance(1, 3) {
		var rest []string
		k := 0
		for _, i := range order {
			if body[i].Kind == "pinfo" && len(items[i].Deps) == 0 {
				foiText.WriteString(items[i].Text)
			} else {
				rest = append(rest, vtexts[k])
			}
			k++
		}
		if foiText.Len() > 0 && len(rest) > 0 {
			vtexts = rest
			kinds = append(kinds, "foi")
		} else {
			foiText.Reset()
		}
	}
	vargv, vfiles := cutSequence(r, vtexts, genHeader, nfiles, []string{"v", "v/sub", "w"}[:r.Range(1, 3)], false)
	vfiles["pkg/pkg_all.foi"] = pkgAllFoi
	if foiText.Len() > 0 {
		vfiles["v/decl.foi"] = []byte(foiText.String())
		vargv = append([]string{"v/decl.foi"}, vargv...)
	}
	if len(kinds) == 0 {
		kinds = []string{"same"}
	}
	vp := newProgram("variant", append([]string{"pkg/pkg_all.foi"}, vargv...), vfiles, "gen")
	ex := c07Extra{Kind: strings.Join(kinds, "+"), Argv: vp.Argv, Disk: vp.Disk,
		History: fmt.Sprintf("base %d items in %d file(s); variant order %v in %d file(s)", nBase, baseFiles, order, len(vargv))}
	// reference: the variant's item set in generation order in one file (unless that is what the base is)
	sameSet := true
	for i := range keep {
		if keep[i] != (i < nBase) {
			sameSet = false
		}
	}
	if !(sameSet && baseFiles == 1) {
		var sb strings.Builder
		sb.WriteString(genHeader)
		for i := range items {
			if keep[i] {
				sb.WriteString(items[i].Text)
			}
		}
		rd := Disk{}
		rd.Put("pkg/pkg_all.foi", pkgAllFoi, "corpus")
		rd.Put("r/ref.fo", []byte(sb.String()), "reference order")
		ex.RefArgv = []string{"pkg/pkg_all.foi", "r/ref.fo"}
		ex.RefDisk = &rd
	}
	// kept for the closure rule (used only when a whole program turns out to be rejected)
	c07LastItems.Store(run, items)
	b, _ := json.Marshal(ex)
	sc.Extra = b
	return sc
}

// ---- corpus variants (dependencies over-approximated by the chunker) ----

type corpusFile struct {
	path  string
	items []Item
}

func loadCorpusFiles(p *Program) []corpusFile {
	var out []corpusFile
	for _, a := range p.Argv {
		b, _ := p.Disk.Get(a)
		items := chunkFo(string(b))
		if joinItems(items) != string(b) {
			harnessFail("chunker: chunk/join is not the identity on %s", a)
		}
		out = append(out, corpusFile{a, items})
	}
	return out
}

func itemSeq(items []Item) []seqItem {
	out := make([]seqItem, len(items))
	for i := range items {
		out[i] = seqItem{Text: items[i].Text, Base: true}
		for j := 0; j < i; j++ {
			if dependsOn(&items[i], &items[j]) || conflicts(&items[i], &items[j]) {
				out[i].Deps = append(out[i].Deps, j)
			}
		}
	}
	return out
}

// c07Corpus builds a variant of a multi-file repository program.
func c07Corpus(c *Ctx, r *common.Rng, run int, p *Program) *Scenario {
	sc := p.scenario("C07", c.Seed, run)
	files := loadCorpusFiles(p)
	ex := c07Extra{}
	vdisk := Disk{}
	var vargv []string
	kind := r.Intn(5)
	nfo := 0
	for _, f := range files {
		if strings.HasSuffix(f.path, ".fo") {
			nfo++
		}
	}
	if nfo < 2 && kind == 0 {
		kind = 3
	}
	switch kind {
	case 4: // insert a file of generated, unrelated definitions somewhere into the invocation
		ex.Kind = "insert-noise-file"
		o := swarmOpts(r)
		o.Items = r.Range(3, 14)
		o.Collide = false
		o.Shadow = false
		g := genItems(r, o, "Zq")
		{ // the noise must not define main (the repository programs have their own)
			var kept []GItem
			for _, it := range g.items {
				if it.Name != "main" {
					kept = append(kept, it)
				}
			}
			g.items = kept
		}
		pos := 1 + r.Intn(len(files)) // never in front of the .foi
		dir := filepath.Dir(files[len(files)-1].path)
		for i, f := range files {
			if i == pos {
				vdisk.Put(filepath.Join(dir, "zq_noise.fo"), []byte(g.text()), "generated noise")
				vargv = append(vargv, filepath.Join(dir, "zq_noise.fo"))
			}
			vdisk.Put(f.path, []byte(joinItems(f.items)), "corpus")
			vargv = append(vargv, f.path)
		}
		if pos >= len(files) {
			vdisk.Put(filepath.Join(dir, "zq_noise.fo"), []byte(g.text()), "generated noise")
			vargv = append(vargv, filepath.Join(dir, "zq_noise.fo"))
		}
		// reference: the inserted definitions on their own. If fc rejects them alone (one generated definition in a
		// thousand exceeds fc's per-definition limits) the variant is legitimately rejected too; if it accepts them
		// alone and the base alone, it must accept them together.
		rd := Disk{}
		rd.Put("pkg/pkg_all.foi", pkgAllFoi, "corpus")
		rd.Put("r/zq_noise.fo", []byte(g.text()), "generated noise")
		ex.RefArgv = []string{"pkg/pkg_all.foi", "r/zq_noise.fo"}
		ex.RefDisk = &rd
	case 0: // merge all .fo files into one
		ex.Kind = "merge"
		var headers, body []Item
		seenHdr := map[string]bool{}
		dir := "."
		for _, f := range files {
			if !strings.HasSuffix(f.path, ".fo") {
				vdisk.Put(f.path, []byte(joinItems(f.items)), "corpus")
				vargv = append(vargv, f.path)
				continue
			}
			dir = filepath.Dir(f.path)
			for _, it := range f.items {
				if it.Kind == "package" || it.Kind == "import" {
					key := strings.TrimSpace(it.Text)
					if !seenHdr[key] {
						seenHdr[key] = true
						if !strings.HasSuffix(it.Text, "\n") {
							it.Text += "\n"
						}
						headers = append(headers, it)
					}
					continue
				}
				if it.Kind == "prelude" {
					continue
				}
				if !strings.HasSuffix(it.Text, "\n") {
					it.Text += "\n"
				}
				body = append(body, it)
			}
		}
		sort.SliceStable(headers, func(i, j int) bool { return headers[i].Kind == "package" && headers[j].Kind != "package" })
		name := filepath.Join(dir, "merged.fo")
		vdisk.Put(name, []byte(joinItems(headers)+"\n"+joinItems(body)), "merged")
		vargv = append(vargv, name)
	case 1: // split every .fo file into 2..3 files at item boundaries
		ex.Kind = "split"
		for _, f := range files {
			if !strings.HasSuffix(f.path, ".fo") {
				vdisk.Put(f.path, []byte(joinItems(f.items)), "corpus")
				vargv = append(vargv, f.path)
				continue
			}
			var hdr strings.Builder
			var body []Item
			for _, it := range f.items {
				if it.isHeader() {
					t := it.Text
					if !strings.HasSuffix(t, "\n") {
						t += "\n"
					}
					hdr.WriteString(t)
				} else {
					body = append(body, it)
				}
			}
			parts := r.Range(1, 3)
			if parts > len(body) {
				parts = len(body)
			}
			if parts <= 1 {
				vdisk.Put(f.path, []byte(joinItems(f.items)), "corpus")
				vargv = append(vargv, f.path)
				continue
			}
			cuts := map[int]bool{}
			for len(cuts) < parts-1 {
				cuts[1+r.Intn(len(body)-1)] = true
			}
			var sb strings.Builder
			k := 0
			flush := func() {
				name := filepath.Join(filepath.Dir(f.path), fmt.Sprintf("%s_part%d.fo", strings.TrimSuffix(filepath.Base(f.path), ".fo"), k))
				vdisk.Put(name, []byte(hdr.String()+sb.String()), "split of "+f.path)
				vargv = append(vargv, name)
				k++
				sb.Reset()
			}
			for i, it := range body {
				if cuts[i] {
					flush()
				}
				t := it.Text
				if !strings.HasSuffix(t, "\n") {
					t += "\n"
				}
				sb.WriteString(t)
			}
			flush()
		}
	case 2: // move independent files (file-level dependency order)
		ex.Kind = "move-files"
		fitems := make([]seqItem, len(files))
		for i := range files {
			fitems[i] = seqItem{Text: files[i].path, Base: true}
			for j := 0; j < i; j++ {
				dep := !strings.HasSuffix(files[j].path, ".fo") // .foi files stay in front
				for a := range files[i].items {
					for b := range files[j].items {
						ia, ib := &files[i].items[a], &files[j].items[b]
						if ia.isHeader() || ib.isHeader() {
							continue
						}
						if dependsOn(ia, ib) || conflicts(ia, ib) {
							dep = true
						}
					}
				}
				if dep {
					fitems[i].Deps = append(fitems[i].Deps, j)
				}
			}
		}
		keep := make([]bool, len(files))
		for i := range keep {
			keep[i] = true
		}
		for _, i := range topoShuffle(r, fitems, keep, 4) {
			vdisk.Put(files[i].path, []byte(joinItems(files[i].items)), "corpus")
			vargv = append(vargv, files[i].path)
		}
	default: // permute items inside every .fo file
		ex.Kind = "permute-items"
		for _, f := range files {
			if !strings.HasSuffix(f.path, ".fo") {
				vdisk.Put(f.path, []byte(joinItems(f.items)), "corpus")
				vargv = append(vargv, f.path)
				continue
			}
			its := append([]Item{}, f.items...)
			for i := range its {
				if !strings.HasSuffix(its[i].Text, "\n") {
					its[i].Text += "\n"
				}
			}
			seq := itemSeq(its)
			keep := make([]bool, len(seq))
			for i := range keep {
				keep[i] = true
			}
			var sb strings.Builder
			for _, i := range topoShuffle(r, seq, keep, r.Range(1, 4)) {
				sb.WriteString(seq[i].Text)
			}
			vdisk.Put(f.path, []byte(sb.String()), "permuted "+f.path)
			vargv = append(vargv, f.path)
		}
	}
	ex.Argv = vargv
	ex.Disk = vdisk
	ex.History = fmt.Sprintf("%s of %s: %d file(s)", ex.Kind, p.Name, len(vargv))
	b, _ := json.Marshal(ex)
	sc.Extra = b
	return sc
}

func shrinkC07(c *Ctx, sc *Scenario, v *Violation, judge Judge) (*Scenario, *Violation) {
	// Shrink base, reference and variant together by deleting, from all, the declarations with the same text.
	vs, ex := c07Variant(sc)
	if ex.Kind == "closure" {
		return sc, v
	}
	var refSc *Scenario
	if ex.RefDisk != nil {
		refSc = sc.Clone()
		refSc.Extra = nil
		refSc.Argv = ex.RefArgv
		refSc.Disk = ex.RefDisk.Clone()
	}
	type loc struct {
		inBase string
		path   string
		idx    int
	}
	texts := map[string][]loc{}
	chunks := map[string][]Item{}
	collect := func(s *Scenario, inBase string) {
		for _, a := range s.Argv {
			p := filepath.Clean(a)
			key := inBase + "|" + p
			if _, done := chunks[key]; done || !strings.HasSuffix(p, ".fo") {
				continue
			}
			b, _ := s.Disk.Get(p)
			its := chunkFo(string(b))
			chunks[key] = its
			for i, it := range its {
				if it.isHeader() {
					continue
				}
				texts[it.Text] = append(texts[it.Text], loc{inBase, p, i})
			}
		}
	}
	collect(sc, "base")
	collect(vs, "variant")
	if refSc != nil {
		collect(refSc, "ref")
	}
	keys := sortedKeys(texts)
	build := func(keepKeys []int) *Scenario {
		drop := map[string]bool{}
		kept := map[int]bool{}
		for _, k := range keepKeys {
			kept[k] = true
		}
		for i, k := range keys {
			if !kept[i] {
				drop[k] = true
			}
		}
		nb := sc.Clone()
		nv := vs.Clone()
		var nr *Scenario
		if refSc != nil {
			nr = refSc.Clone()
		}
		for key, its := range chunks {
			which, p, _ := strings.Cut(key, "|")
			var sb strings.Builder
			for _, it := range its {
				if !it.isHeader() && drop[it.Text] {
					continue
				}
				sb.WriteString(it.Text)
			}
			switch which {
			case "base":
				nb.Disk.Put(p, []byte(sb.String()), "shrunk")
			case "variant":
				nv.Disk.Put(p, []byte(sb.String()), "shrunk")
			case "ref":
				nr.Disk.Put(p, []byte(sb.String()), "shrunk")
			}
		}
		nex := c07Extra{Kind: ex.Kind, Argv: nv.Argv, Disk: nv.Disk, History: ex.History + " (shrunk)"}
		if nr != nil {
			nex.RefArgv = nr.Argv
			d := nr.Disk
			nex.RefDisk = &d
		}
		b, _ := json.Marshal(nex)
		nb.Extra = b
		return nb
	}
	keep := common.DDMin(len(keys), func(keep []int) bool { return same(judge(c, build(keep)), v.Class) })
	cur := build(keep)
	nv := judge(c, cur)
	if nv == nil || nv.Class != v.Class {
		return sc, v
	}
	return cur, nv
}

func checkC07(tier string) {
	corpusViolations := 0
	c := newCtx("C07", tier, "fc")
	pkgAllFoi = mustRead(filepath.Join(c.B.Repo, "pkg", "pkg_all.foi"))
	nGen, nCorpus := 8000, 60
	if tier != "quick" {
		nGen, nCorpus = 100000, 800
	}
	self := corpusSelfBuild(c.B.Repo)
	corpusProgs := []*Program{self}
	// samples are single-definition programs mostly; the tool and a few samples still give split/permute variants
	corpusProgs = append(corpusProgs, corpusTool(c.B.Repo))
	corpusProgs = append(corpusProgs, corpusSamples(c.B.Repo)...)

	type outcome struct {
		sc *Scenario
		v  *Violation
	}
	c.phase("generated bases and variants")
	outs := parallel(c, nGen, func(i int) outcome {
		r := common.NewRng(common.Mix(c.Seed, 7, uint64(i)))
		sc := c07Generated(c, r, i)
		sc.TickBudget = c05Budget
		if i%4 == 3 {
			// the history must not matter under any enumeration order either (base, reference and variant all run
			// under this schedule; C05 says the order alone changes nothing)
			sc.Enum = EnumSched{Mode: "seeded", Seed: common.Mix(c.Seed, 707, uint64(i)), Style: "mixed"}
			c.count("runs_under_seeded_enumeration_schedule", 1)
		}
		vs, ex := c07Variant(sc)
		base := sc.Clone()
		base.Extra = nil
		r0 := c.sim(c.B.FcVerif, base)
		r1 := c.sim(c.B.FcVerif, vs)
		var rr *Result
		if ex.RefDisk != nil {
			ref := sc.Clone()
			ref.Extra = nil
			ref.Argv = ex.RefArgv
			ref.Disk = ex.RefDisk.Clone()
			rr = c.sim(c.B.FcVerif, ref)
		}
		if r0.Exit != 0 {
			c.count("base_rejected", 1)
		} else {
			c.count("base_accepted", 1)
		}
		c.count("variant_kind:"+ex.Kind, 1)
		if ex.Kind != "same" && c.markDistinct("pair:"+base.Hash()+"|"+vs.Hash()) {
			c.count("distinct_nontrivial", 1)
		}
		if i%307 == 0 {
			c.addSample(map[string]any{"base_argv": sc.Argv, "variant_argv": ex.Argv, "kind": ex.Kind, "history": clip(ex.History, 300),
				"base_exit": r0.Exit, "variant_exit": r1.Exit, "decls_base": countDecls(r0)}, 8)
		}
		v := c07Judge(sc, ex, r0, rr, r1)
		// closure rule: a rejected whole must contain a definition that is rejected with only what it references
		if v == nil {
			itemsAny, _ := c07LastItems.Load(i)
			items, _ := itemsAny.([]seqItem)
			rejected := [][]seqItem{}
			if r0.Exit != 0 && items != nil {
				var bi []seqItem
				for _, it := range items {
					if it.Base {
						bi = append(bi, it)
					}
				}
				rejected = append(rejected, bi)
			}
			for _, its := range rejected {
				c.count("closure_rule_applied", 1)
				csc := sc.Clone()
				b, _ := json.Marshal(c07Extra{Kind: "closure", Items: its})
				csc.Extra = b
				if cv := judgeC07(c, csc); cv != nil {
					c07LastItems.Delete(i)
					return outcome{csc, cv}
				}
			}
		}
		c07LastItems.Delete(i)
		if v == nil && i%16 == 5 && r1.Exit == 0 {
			c.count("real_directory_runs_over_stale_outputs", 1)
			rsc := sc.Clone()
			ex2 := *ex
			ex2.RealStale = true
			b, _ := json.Marshal(ex2)
			rsc.Extra = b
			if rv := judgeC07(c, rsc); rv != nil {
				return outcome{rsc, rv}
			}
		}
		return outcome{sc, v}
	}, nil)

	c.phase("repository corpus variants")
	outs2 := parallel(c, nCorpus, func(i int) outcome {
		r := common.NewRng(common.Mix(c.Seed, 77, uint64(i)))
		var p *Program
		if i%3 != 2 {
			p = self
		} else {
			p = corpusProgs[1+r.Intn(len(corpusProgs)-1)]
		}
		sc := c07Corpus(c, r, 1_000_000+i, p)
		sc.TickBudget = c05Budget
		vs, ex := c07Variant(sc)
		base := sc.Clone()
		base.Extra = nil
		r0 := c.sim(c.B.FcVerif, base)
		r1 := c.sim(c.B.FcVerif, vs)
		var rr *Result
		if ex.RefDisk != nil {
			ref := sc.Clone()
			ref.Extra = nil
			ref.Argv = ex.RefArgv
			ref.Disk = ex.RefDisk.Clone()
			rr = c.sim(c.B.FcVerif, ref)
		}
		c.count("corpus_variant_kind:"+ex.Kind, 1)
		if c.markDistinct("pair:" + base.Hash() + "|" + vs.Hash()) {
			c.count("distinct_nontrivial", 1)
			c.count("corpus_distinct", 1)
		}
		if i < 4 {
			c.addSample(map[string]any{"base": p.Name, "variant_argv": ex.Argv, "kind": ex.Kind, "base_exit": r0.Exit, "variant_exit": r1.Exit, "decls_base": countDecls(r0)}, 12)
		}
		return outcome{sc, c07Judge(sc, ex, r0, rr, r1)}
	}, nil)

	// permanent corpus: hand-kept base/variant pairs and replays of fixed / known findings. Their signature names
	// the corpus file, so a listed finding is identified by its specific input.
	if ents, err := os.ReadDir(filepath.Join(verifDir, "corpus", "c07")); err == nil {
		for _, e := range ents {
			if filepath.Ext(e.Name()) != ".json" {
				continue
			}
			sc, err := loadScenario(filepath.Join(verifDir, "corpus", "c07", e.Name()))
			if err != nil {
				harnessFail("corpus scenario %s: %v", e.Name(), err)
			}
			sc.Expect = nil
			sc.TickBudget = c05Budget
			c.count("corpus_scenarios", 1)
			if v := judgeC07(c, sc); v != nil {
				name := strings.TrimSuffix(e.Name(), ".json")
				v.Signature = "corpus:" + name + ":" + v.Signature
				if k := common.KnownFor(c.Findings, c.Prop, v.Signature); k != nil {
					msg := fmt.Sprintf("KNOWN-FINDING: property=%s %s [%s]", c.Prop, k.What, v.Signature)
					c.Known = append(c.Known, msg)
					fmt.Println(msg)
					continue
				}
				fmt.Printf("violation class=%s signature=%s\n%s\n", v.Class, v.Signature, v.Detail)
				fmt.Printf("VIOLATION property=%s replay=%s\n", c.Prop, filepath.Join(verifDir, "corpus", "c07", e.Name()))
				corpusViolations++
			}
		}
	}
	c.phase("reporting")
	violations := corpusViolations
	seen := map[string]int{}
	all := append(outs, outs2...)
	sort.SliceStable(all, func(i, j int) bool { return scenarioSize(all[i].sc) < scenarioSize(all[j].sc) })
	for _, o := range all {
		if o.v == nil {
			continue
		}
		c.count("raw_violation:"+o.v.Signature, 1)
		seen[o.v.Signature]++
		if seen[o.v.Signature] > 1 {
			continue
		}
		ssc, sv := shrinkC07(c, o.sc, o.v, judgeC07)
		if c.report(ssc, sv, judgeC07, nil) {
			violations++
		}
	}
	c.writeEvidence("exploration", len(outs)+len(outs2), c.Counters["distinct_nontrivial"],
		"one evaluation = one base/variant comparison, both under the identity enumeration schedule: the variant is the base after a dependency-respecting permutation of top-level items, deletion of items nothing retained depends on, insertion of further items, and/or re-cutting into 1..8 files (repository corpus: merge of all files, split of every file, moved independent files, permuted items; dependencies over-approximated by the chunker). Compared: both accept; every Go declaration (func/method/var/type, located with go/parser) present in both outputs has identical text after _v<digits> -> _v#; exactly gen_X.go next to each X.fo argument is written once, nothing for .foi. Distinct and non-trivial = the (base hash, variant hash) pair is new and the variant really differs from the base.",
		map[string]any{
			"generated_pairs":       len(outs),
			"corpus_pairs":          len(outs2),
			"fault_kinds_injected":  "none (history dimension only: no fault and no schedule is involved; degenerate single-caller configuration of the technique)",
		},
		[]string{"'unrelated' for repository sources means: not related under the chunker's over-approximation (mentions a declared name, or declares a common name)",
			"rejected generated bases are skipped and counted"},
		violations)
	finish(c, violations)
}

func countDecls(r *Result) int {
	d := map[string]string{}
	for _, b := range r.Written() {
		goDecls(b, d)
	}
	return len(d)
}

func intersects(a, b []string) bool {
	for _, x := range a {
		for _, y := range b {
			if x == y {
				return true
			}
		}
	}
	return false
}

func contains(xs []string, x string) bool {
	for _, y := range xs {
		if y == x {
			return true
		}
	}
	return false
}

var reUnresolved = regexp.MustCompile(`\b_[TP][0-9]+\b`)
var reEmptyTarg = regexp.MustCompile(`[A-Za-z0-9_]\[\]`)
var reTParams = regexp.MustCompile(`^func [A-Za-z0-9_]+\[[^\]]*\]`)

// diffClass says what kind of difference two translations of one definition show (the variant kinds that exposed
// it go into the detail, not into the signature).
func diffClass(a, b string) string {
	switch {
	case reUnresolved.MatchString(a) != reUnresolved.MatchString(b):
		return "unresolved-type-variable"
	case reEmptyTarg.MatchString(a) != reEmptyTarg.MatchString(b):
		return "empty-type-argument"
	case reTParams.MatchString(a) != reTParams.MatchString(b):
		return "type-parameter-list"
	}
	la, lb := strings.SplitN(a, "\n", 2), strings.SplitN(b, "\n", 2)
	if la[0] != lb[0] {
		return "signature"
	}
	return "body"
}
