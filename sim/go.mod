module fosim

go 1.23
