package main

import (
	"bytes"
	"fmt"
	"os"
	"path/filepath"
	"strings"

	"fosim/common"
)

// ---- C18: build_sample_md renders every listed sample verbatim, in order; fails on unreadable input ----

type c18Entry struct {
	Name    string
	Title   string // as rendered: text after the first space, or the name
	Content []byte
}

// c18Expected parses the list file the way the property states it (not the way the tool does).
func c18Expected(sc *Scenario) (dir string, entries []c18Entry, listOK bool) {
	list := filepath.Clean(sc.Argv[0])
	dir = filepath.Dir(list)
	b, ok := sc.Disk.Get(list)
	if !ok {
		return dir, nil, false
	}
	for _, line := range strings.Split(string(b), "\n") {
		if line == "" {
			continue
		}
		e := c18Entry{Name: line, Title: line}
		if i := strings.Index(line, " "); i >= 0 {
			e.Name, e.Title = line[:i], line[i+1:]
		}
		e.Content, _ = sc.Disk.Get(filepath.Join(dir, e.Name))
		entries = append(entries, e)
	}
	return dir, entries, true
}

func skipSpace(b []byte) []byte { return bytes.TrimLeft(b, " \t\r\n") }

func takeLine(b []byte) (line, rest []byte) {
	if i := bytes.IndexByte(b, '\n'); i >= 0 {
		return b[:i], b[i+1:]
	}
	return b, nil
}

// c18Scan is the reference reader: header, then per entry heading / fenced verbatim content / link, white
// space in between and after, nothing else.
func c18Scan(readme []byte, header []byte, entries []c18Entry) (class, detail string) {
	if !bytes.HasPrefix(readme, bytes.TrimRight(header, " \t\r\n")) {
		return "header", fmt.Sprintf("README does not start with the fixed header %q: %q", header, clip(string(readme), 60))
	}
	rest := readme[len(bytes.TrimRight(header, " \t\r\n")):]
	for i, e := range entries {
		rest = skipSpace(rest)
		var line []byte
		line, rest = takeLine(rest)
		// a heading of any level; the statement says the section shows the title, not which level the heading has
		lvl := 0
		for lvl < len(line) && line[lvl] == '#' {
			lvl++
		}
		if lvl == 0 || lvl > 6 {
			return "section", fmt.Sprintf("section %d (%s): expected a heading, found %q", i, e.Name, clip(string(line), 80))
		}
		if got, want := strings.TrimSpace(string(line[lvl:])), strings.TrimSpace(e.Title); got != want {
			return "title", fmt.Sprintf("section %d (%s): heading shows %q, the list line's title is %q", i, e.Name, got, want)
		}
		rest = skipSpace(rest)
		line, rest = takeLine(rest)
		// the opening fence may carry an info string (```fsharp); the closing one may not
		if !strings.HasPrefix(string(line), "```") || strings.Contains(string(line[3:]), "`") {
			return "fence", fmt.Sprintf("section %d (%s): expected the opening code fence, found %q", i, e.Name, clip(string(line), 80))
		}
		if !bytes.HasPrefix(rest, e.Content) {
			return "content", fmt.Sprintf("section %d (%s): the fenced text is not the file's content verbatim: %s", i, e.Name, diffSummary(e.Content, rest[:min(len(rest), len(e.Content))]))
		}
		rest = skipSpace(rest[len(e.Content):])
		line, rest = takeLine(rest)
		if strings.TrimRight(string(line), " \t\r") != "```" {
			return "content", fmt.Sprintf("section %d (%s): after the file's content the closing fence is expected, found %q", i, e.Name, clip(string(line), 80))
		}
		rest = skipSpace(rest)
		line, rest = takeLine(rest)
		base := strings.TrimSuffix(e.Name, ".fo")
		link := "[gen_" + base + ".go](./gen_" + base + ".go)"
		if !bytes.Contains(line, []byte(link)) && !bytes.Contains(line, []byte("[gen_"+base+".go](gen_"+base+".go)")) {
			return "link", fmt.Sprintf("section %d (%s): expected the link %s, found %q", i, e.Name, link, clip(string(line), 120))
		}
	}
	if len(skipSpace(rest)) != 0 {
		return "extra", fmt.Sprintf("text after the last listed section: %q", clip(string(skipSpace(rest)), 120))
	}
	return "", ""
}

func min(a, b int) int {
	if a < b {
		return a
	}
	return b
}

var c18Header []byte

func c18Oracle(sc *Scenario, r *Result) *Violation {
	if r.Budget || r.Signal != "" {
		return &Violation{Class: "termination", Signature: "termination", Detail: "build_sample_md did not terminate normally: " + tail(r.Stderr, 300)}
	}
	dir, entries, listOK := c18Expected(sc)
	// does every read the tool has to do succeed?
	readFault := !listOK
	for _, e := range r.Reads() {
		if !e.Ok {
			readFault = true
		}
	}
	writes := r.Writes()
	// a failed write of README.md: the tool did not write the file it is there to write, so it must not report
	// success (the bytes a full disk leaves behind are not judged)
	for _, w := range writes {
		if !w.Ok {
			if r.Exit == 0 {
				cause := w.Fault
				if cause == "" {
					cause = "write_" + w.Why
				}
				return &Violation{Class: "exit0-unwritten", Signature: "exit0-unwritten@" + cause,
					Detail: fmt.Sprintf("writing %s failed (%d of %d bytes stored, %s %s) and the tool exited 0", w.Path, w.Stored, w.Len, w.Fault, w.Why)}
			}
			return nil
		}
	}
	if readFault {
		if r.Exit == 0 {
			return &Violation{Class: "partial-on-fault", Signature: "partial-on-fault:exit0",
				Detail: fmt.Sprintf("a listed file (or the list) could not be read, yet the tool exited 0; reads: %s", readSummary(r))}
		}
		if len(writes) > 0 {
			return &Violation{Class: "partial-on-fault", Signature: "partial-on-fault:wrote",
				Detail: fmt.Sprintf("a listed file (or the list) could not be read, yet the tool wrote %s; reads: %s", writes[0].Path, readSummary(r))}
		}
		return nil
	}
	if r.Exit != 0 {
		return &Violation{Class: "exit", Signature: "exit:nonzero-without-fault",
			Detail: fmt.Sprintf("every read succeeded but the tool exited %d: %s", r.Exit, tail(r.Stderr+r.Stdout, 300))}
	}
	dest := filepath.Join(dir, "README.md")
	if len(writes) != 1 || writes[0].Path != dest || !writes[0].Ok {
		var ps []string
		for _, w := range writes {
			ps = append(ps, w.Path)
		}
		return &Violation{Class: "fileset", Signature: "fileset",
			Detail: fmt.Sprintf("expected exactly one successful write, to %s; got %v", dest, ps)}
	}
	// every listed file must have been read, in order
	readme := r.Written()[dest]
	if class, detail := c18Scan(readme, c18Header, entries); class != "" {
		return &Violation{Class: class, Signature: class, Detail: detail}
	}
	return nil
}

func readSummary(r *Result) string {
	var ps []string
	for _, e := range r.Reads() {
		ps = append(ps, fmt.Sprintf("%s ok=%v %s%s", e.Path, e.Ok, e.Fault, e.Why))
	}
	return strings.Join(ps, "; ")
}

func judgeC18(c *Ctx, sc *Scenario) *Violation {
	if sc.Real {
		return c18RealOracle(sc, RunReal(c.B.BsmOff, sc, c.Work))
	}
	r := c.sim(c.B.BsmVerif, sc)
	return c18Oracle(sc, r)
}

// c18RealOracle judges what the shipped tool leaves on a real directory (fault-free scenarios): exit 0, nothing
// but README.md next to the list changed, and README.md as a whole file passes the reference reader (so bytes
// of an older, longer README that survive behind the new text are seen).
func c18RealOracle(sc *Scenario, rr *RealResult) *Violation {
	if rr.Watchdog {
		harnessFail("watchdog on the real-directory run")
	}
	dir, entries, listOK := c18Expected(sc)
	unreadable := !listOK
	for _, e := range entries {
		if _, ok := sc.Disk.Get(filepath.Join(dir, e.Name)); !ok {
			unreadable = true // missing, or a directory, in the image: a fault a real directory can show too
		}
	}
	if unreadable {
		if rr.Exit == 0 {
			return &Violation{Class: "real-disk", Signature: "real-disk:partial-on-fault:exit0",
				Detail: "on a real directory a listed file (or the list) is missing or a directory, yet the shipped tool exits 0"}
		}
		if len(rr.Changed) > 0 {
			return &Violation{Class: "real-disk", Signature: "real-disk:partial-on-fault:wrote",
				Detail: fmt.Sprintf("on a real directory a listed file (or the list) is missing or a directory, yet the shipped tool changed %v", sortedKeys(rr.Changed))}
		}
		return nil
	}
	if rr.Exit != 0 {
		return &Violation{Class: "real-disk", Signature: "real-disk:exit", Detail: fmt.Sprintf("on a real directory the shipped tool exits %d although every file is readable: %s", rr.Exit, tail(rr.Stderr, 300))}
	}
	dest := filepath.Join(dir, "README.md")
	for p := range rr.Changed {
		if p != dest {
			return &Violation{Class: "real-disk", Signature: "real-disk:fileset", Detail: "on a real directory the shipped tool changed " + p}
		}
	}
	readme, ok := rr.Changed[dest]
	if !ok {
		readme, ok = sc.Disk.Get(dest) // unchanged: only fine if the old bytes already are the right README
		if !ok {
			return &Violation{Class: "real-disk", Signature: "real-disk:fileset", Detail: "on a real directory the shipped tool did not create " + dest}
		}
	}
	if class, detail := c18Scan(readme, c18Header, entries); class != "" {
		return &Violation{Class: "real-disk", Signature: "real-disk:" + class, Detail: "README.md left on a real directory by the shipped tool: " + detail}
	}
	return nil
}

func shrinkC18(c *Ctx, sc *Scenario, v *Violation, judge Judge) (*Scenario, *Violation) {
	cur := shrinkFaults(c, sc, v.Class, judge)
	// drop list lines
	list := filepath.Clean(cur.Argv[0])
	if b, ok := cur.Disk.Get(list); ok {
		lines := splitKeep(string(b))
		base := cur
		mk := func(keep []int) *Scenario {
			s := base.Clone()
			var sb strings.Builder
			for _, i := range keep {
				sb.WriteString(lines[i])
			}
			s.Disk.Put(list, []byte(sb.String()), "shrunk")
			return s
		}
		keep := common.DDMin(len(lines), func(keep []int) bool { return same(judge(c, mk(keep)), v.Class) })
		cur = mk(keep)
	}
	// shorten file contents
	for _, p := range sortedKeys(cur.Disk.Files) {
		if p == list {
			continue
		}
		b, _ := cur.Disk.Get(p)
		for _, repl := range [][]byte{{}, []byte("x"), []byte("x\n")} {
			if len(repl) >= len(b) {
				continue
			}
			s := cur.Clone()
			s.Disk.Put(p, repl, "shrunk")
			if same(judge(c, s), v.Class) {
				cur = s
				break
			}
		}
	}
	nv := judge(c, cur)
	if nv == nil || nv.Class != v.Class {
		return sc, v
	}
	return cur, nv
}

var c18Contents = []string{
	"", "x", "x\n", "package main\n\nlet main () =\n  ()\n", "no final newline", "```\nfence inside\n```\n", "### heading inside\n",
	"multi-byte: 日本語 é ü\n", "\n\nleading blank lines\n", "trailing blanks\n\n\n", "tab\there\n", "`single` backtick", "  indented\n    more\n",
	"[gen_x.go](./gen_x.go)\n", "## Folang Sample \n", "a\r\nb\r\n", "%d %s %v\n", "\\n not a newline\n",
}

var c18Titles = []string{"100% done", "%s", "50%d%% off %v", "", "Title", "Two words", "Several   spaces  here", " leading space", "trailing space ", "# hash", "`tick`", "日本語 title", "a.fo b.fo", "-", "### x"}

func c18Scenario(c *Ctx, r *common.Rng, run int) *Scenario {
	sc := &Scenario{V: 1, Property: "C18", Seed: c.Seed, Run: run, Program: "build_sample_md", Enum: EnumSched{Mode: "identity"}}
	dir := []string{".", "s", "s/sub", "deep/er/dir"}[r.Intn(4)]
	listName := r.Pick("filelist.txt", "list", "l.txt")
	list := filepath.Join(dir, listName)
	n := r.Intn(13)
	var names []string
	var sb strings.Builder
	if r.Chance(1, 5) {
		sb.WriteString(strings.Repeat("\n", r.Range(1, 3)))
	}
	for i := 0; i < n; i++ {
		var name string
		switch {
		case len(names) > 0 && r.Chance(1, 8):
			name = names[r.Intn(len(names))] // duplicate entry
		case r.Chance(1, 6):
			name = fmt.Sprintf("noext%d", i)
		case r.Chance(1, 10):
			name = fmt.Sprintf("dots.%d.fo.fo", i)
		case r.Chance(1, 10):
			name = fmt.Sprintf("%s%d.fo", r.Pick("info", "foo", "of.", "p%d", "f", "o.f.o"), i) // stems ending in the suffix's letters, a percent sign
		default:
			name = fmt.Sprintf("s%d.fo", i)
		}
		names = append(names, name)
		sc.Disk.Put(filepath.Join(dir, name), []byte(c18Contents[r.Intn(len(c18Contents))]), "gen")
		line := name
		if r.Chance(4, 5) {
			line += " " + c18Titles[r.Intn(len(c18Titles))]
		}
		if r.Chance(1, 150) {
			line += " " + strings.Repeat("a very long title ", 4000) // 72,000 characters on one line
		}
		sb.WriteString(line)
		if i < n-1 || r.Chance(4, 5) {
			sb.WriteString("\n")
		}
		if r.Chance(1, 6) {
			sb.WriteString(strings.Repeat("\n", r.Range(1, 2)))
		}
	}
	sc.Disk.Put(list, []byte(sb.String()), "gen")
	if r.Chance(1, 3) {
		stale := "stale readme\n"
		if r.Chance(1, 2) { // longer than anything the tool will write: the old tail must not survive
			stale = strings.Repeat("stale readme line, left over from an earlier and much longer list\n", 600)
		}
		sc.Disk.Put(filepath.Join(dir, "README.md"), []byte(stale), "stale")
	}
	arg := list
	if dir != "." && r.Chance(1, 4) {
		arg = "./" + list
	}
	sc.Argv = []string{arg}
	sc.Note = fmt.Sprintf("entries=%d dir=%s", n, dir)
	return sc
}

func checkC18(tier string) {
	c := newCtx("C18", tier, "bsm")
	readme := mustRead(filepath.Join(c.B.Repo, "samples", "README.md"))
	if i := bytes.Index(readme, []byte("###")); i > 0 {
		c18Header = readme[:i]
	} else {
		harnessFail("cannot take the fixed header from samples/README.md")
	}
	n := 40000
	if tier != "quick" {
		n = 600000
	}
	type outcome struct {
		sc *Scenario
		v  *Violation
	}
	c.phase("fault-free batch")
	bases := make([]*Scenario, n)
	twins := make([]*Result, n)
	outs1 := parallel(c, n, func(i int) outcome {
		r := common.NewRng(common.Mix(c.Seed, 18, uint64(i)))
		sc := c18Scenario(c, r, i)
		sc.TickBudget = 100_000_000
		bases[i] = sc
		res := c.sim(c.B.BsmVerif, sc)
		twins[i] = res
		if c.markDistinct("sc:" + sc.Hash()) {
			c.count("distinct_fault_free", 1)
		}
		if i%499 == 0 {
			lb, _ := sc.Disk.Get(filepath.Clean(sc.Argv[0]))
			c.addSample(map[string]any{"argv": sc.Argv, "list": string(lb), "files": sortedKeys(sc.Disk.Files), "exit": res.Exit, "readme_bytes": len(res.Written()[filepath.Join(filepath.Dir(filepath.Clean(sc.Argv[0])), "README.md")])}, 6)
		}
		return outcome{sc, c18Oracle(sc, res)}
	}, nil)
	// the repository's own list, too
	{
		sc := &Scenario{V: 1, Property: "C18", Seed: c.Seed, Run: -1, Program: "build_sample_md", Argv: []string{"samples/filelist.txt"}, Enum: EnumSched{Mode: "identity"}, Note: "repository samples"}
		sc.Disk.Put("samples/filelist.txt", mustRead(filepath.Join(c.B.Repo, "samples", "filelist.txt")), "corpus")
		for _, nme := range sampleList(c.B.Repo) {
			sc.Disk.Put("samples/"+nme, mustRead(filepath.Join(c.B.Repo, "samples", nme)), "corpus")
		}
		outs1 = append(outs1, outcome{sc, judgeC18(c, sc)})
	}
	c.phase("read-fault batch")
	outs2 := parallel(c, n, func(i int) outcome {
		r := common.NewRng(common.Mix(c.Seed, 1818, uint64(i)))
		sc := bases[i].Clone()
		reads := twins[i].Reads()
		if len(reads) == 0 {
			return outcome{sc, nil}
		}
		k := r.Intn(len(reads))
		if r.Chance(1, 4) {
			k = 0 // the list file itself
		}
		kind := r.Pick("error", "missing", "is_dir")
		switch kind {
		case "error":
			sc.Faults = append(sc.Faults, Fault{Op: "read", Nth: k + 1, Kind: "error"})
		case "missing":
			delete(sc.Disk.Files, reads[k].Path)
		case "is_dir":
			delete(sc.Disk.Files, reads[k].Path)
			sc.Disk.Dirs = append(sc.Disk.Dirs, reads[k].Path)
		}
		sc.Note += fmt.Sprintf(" fault=%s@read%d/%d", kind, k+1, len(reads))
		res := c.sim(c.B.BsmVerif, sc)
		fired := false
		for _, e := range res.Reads() {
			if !e.Ok {
				fired = true
			}
		}
		if fired {
			c.count("fault_fired:"+kind, 1)
			if c.markDistinct("sc:" + sc.Hash()) {
				c.count("distinct_fault", 1)
			}
		}
		if i%997 == 0 {
			c.addSample(map[string]any{"argv": sc.Argv, "fault": sc.Note, "exit": res.Exit, "writes": len(res.Writes()), "stderr_head": clip(res.Stderr, 100)}, 12)
		}
		v := c18Oracle(sc, res)
		// faults a real directory can show as well (missing file, directory in its place): the shipped tool too
		if v == nil && kind != "error" && i%20 == 0 {
			rs := sc.Clone()
			rs.Real = true
			rs.Note += " real-directory"
			c.count("real_directory_runs_with_natural_fault", 1)
			if rv := judgeC18(c, rs); rv != nil {
				return outcome{rs, rv}
			}
		}
		return outcome{sc, v}
	}, nil)

	c.phase("write-fault batch")
	outsW := parallel(c, n/4, func(k int) outcome {
		i := k * 4
		r := common.NewRng(common.Mix(c.Seed, 181818, uint64(i)))
		sc := bases[i].Clone()
		ws := twins[i].Writes()
		if len(ws) == 0 {
			return outcome{sc, nil}
		}
		kind := r.Pick("write_error", "enospc", "capacity", "dest_is_dir")
		switch kind {
		case "write_error":
			sc.Faults = append(sc.Faults, Fault{Op: "write", Nth: 1, Kind: "error"})
		case "enospc":
			after := 0
			if ws[0].Len > 0 {
				after = r.Intn(ws[0].Len)
			}
			sc.Faults = append(sc.Faults, Fault{Op: "write", Nth: 1, Kind: "enospc", After: after})
		case "capacity":
			used := int64(0)
			for p := range sc.Disk.Files {
				if p == ws[0].Path {
					continue // the old README is truncated before the new one is stored
				}
				b, _ := sc.Disk.Get(p)
				used += int64(len(b))
			}
			if ws[0].Len == 0 {
				return outcome{sc, nil}
			}
			sc.Disk.Capacity = used + int64(r.Intn(ws[0].Len)) + 1
			if sc.Disk.Capacity >= used+int64(ws[0].Len) {
				sc.Disk.Capacity = used + int64(ws[0].Len) - 1
			}
			if sc.Disk.Capacity <= 0 {
				return outcome{sc, nil}
			}
		case "dest_is_dir":
			delete(sc.Disk.Files, ws[0].Path)
			sc.Disk.Dirs = append(sc.Disk.Dirs, ws[0].Path)
		}
		sc.Note += " fault=" + kind
		res := c.sim(c.B.BsmVerif, sc)
		for _, w := range res.Writes() {
			if !w.Ok {
				c.count("fault_fired:"+kind, 1)
				if c.markDistinct("sc:" + sc.Hash()) {
					c.count("distinct_fault", 1)
				}
				break
			}
		}
		return outcome{sc, c18Oracle(sc, res)}
	}, nil)
	outs2 = append(outs2, outsW...)

	c.phase("shipped tool on real directories")
	nReal := n / 40
	outs3 := parallel(c, nReal, func(k int) outcome {
		sc := bases[k*40].Clone()
		sc.Real = true
		sc.Note += " real-directory"
		c.count("real_directory_runs", 1)
		if k%3 == 0 {
			// what an earlier run over a longer list leaves behind: the new README followed by one more section
			for p, b := range twins[k*40].Written() {
				sc.Disk.Put(p, append(append([]byte{}, b...), []byte("\n### an entry that is no longer listed\n\n```\nold\n```\n\ngenerated go: [gen_old.go](./gen_old.go)\n\n")...), "stale extension")
				c.count("real_directory_runs_with_stale_extension", 1)
			}
		}
		if _, stale := sc.Disk.Get(filepath.Join(filepath.Dir(filepath.Clean(sc.Argv[0])), "README.md")); stale {
			c.count("real_directory_runs_with_stale_readme", 1)
		}
		return outcome{sc, judgeC18(c, sc)}
	}, nil)
	outs2 = append(outs2, outs3...)

	// permanent corpus: replays of fixed findings
	if ents, err := os.ReadDir(filepath.Join(verifDir, "corpus", "c18")); err == nil {
		for _, e := range ents {
			if filepath.Ext(e.Name()) != ".json" {
				continue
			}
			sc, err := loadScenario(filepath.Join(verifDir, "corpus", "c18", e.Name()))
			if err != nil {
				harnessFail("corpus scenario %s: %v", e.Name(), err)
			}
			sc.Expect = nil
			sc.Note += "|corpus:" + e.Name()
			c.count("corpus_scenarios", 1)
			outs2 = append(outs2, outcome{sc, judgeC18(c, sc)})
		}
	}
	c.phase("reporting")
	violations := 0
	seen := map[string]int{}
	for _, o := range append(outs1, outs2...) {
		if o.v == nil {
			continue
		}
		c.count("raw_violation:"+o.v.Signature, 1)
		seen[o.v.Signature]++
		if seen[o.v.Signature] > 1 {
			continue
		}
		ssc, sv := shrinkC18(c, o.sc, o.v, judgeC18)
		if c.report(ssc, sv, judgeC18, nil) {
			violations++
		}
	}
	c.writeEvidence("fault_enumeration", len(outs1)+len(outs2), c.Counters["distinct_fault_free"]+c.Counters["distinct_fault"],
		"one evaluation = one build_sample_md run on a simulated disk holding a generated list file and sample files; fault-free batch judged by a reference reader written from the property text (header, then per non-empty list line: heading with the title, fenced verbatim content, link; white space only in between and after; exactly one write, to README.md next to the list); read-fault batch (read error / missing / directory on the list file or the k-th listed file, placed on a read the fault-free twin performs) judged by: non-zero exit and no write at all. Distinct = scenario hash is new; a fault scenario counts only if the fault fired on a read the tool performed.",
		map[string]any{
			"fault_free_runs":  len(outs1),
			"read_fault_runs":  len(outs2),
			"fault_kinds":      []string{"read_error", "missing", "is_dir", "write_error", "enospc", "capacity", "dest_is_dir"},
			"fixed_header":     string(c18Header),
			"real_directory_leg": "1 fault-free scenario in 40 (a third with the README of an earlier run over a longer list present) and 1 missing/directory scenario in 20 are repeated with the shipped tool on a real directory; the reference reader is applied to the whole README left on disk. Write-fault batch: 1 scenario in 4 with a write error / ENOSPC / full disk / directory in place of README.md, demand: non-zero exit",
			"not_generated":    "list lines that start with a space, consist of spaces only or contain \\r; file names with a slash (the property does not say what a file name is for them)",
		},
		[]string{"exact blank-line counts and the wording around the link are not judged",
			"write failures of README.md are outside the property"},
		violations)
	finish(c, violations)
}
