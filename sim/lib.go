package main

import (
	"encoding/json"
	"fmt"
	"os"
	"os/exec"
	"path/filepath"
	"strings"
	"time"

	"fosim/common"
)

// ---- driver side of the library history engine (C12, C14): build libeng against the scratch copy ----

const libGoMod = `module fosim

go 1.23

require (
	github.com/karino2/folang/pkg/buf v0.0.0-00010101000000-000000000000
	github.com/karino2/folang/pkg/dict v0.0.0-00010101000000-000000000000
	github.com/karino2/folang/pkg/frt v0.0.0-00010101000000-000000000000
	github.com/karino2/folang/pkg/slice v0.0.0-00010101000000-000000000000
	github.com/karino2/folang/pkg/strings v0.0.0-00010101000000-000000000000
)

replace github.com/karino2/folang/pkg/buf => %[1]s/pkg/buf

replace github.com/karino2/folang/pkg/dict => %[1]s/pkg/dict

replace github.com/karino2/folang/pkg/frt => %[1]s/pkg/frt

replace github.com/karino2/folang/pkg/slice => %[1]s/pkg/slice

replace github.com/karino2/folang/pkg/strings => %[1]s/pkg/strings

replace github.com/karino2/folang => %[1]s
`

func simSrcDir() string {
	return filepath.Join(verifDir, "sim")
}

// buildLibeng compiles libeng (tag off, and tag verif when asked) against the scratch copy of pkg/*.
func buildLibeng(b *Build, verif bool) (off, ver string) {
	mod := filepath.Join(b.Dir, "libmod")
	os.MkdirAll(mod, 0755)
	for _, d := range []string{"common", "libeng"} {
		if err := copyTree(filepath.Join(simSrcDir(), d), filepath.Join(mod, d), nil); err != nil {
			harnessFail("copy %s: %v", d, err)
		}
	}
	if err := os.WriteFile(filepath.Join(mod, "go.mod"), []byte(fmt.Sprintf(libGoMod, b.Repo)), 0644); err != nil {
		harnessFail("libmod: %v", err)
	}
	if sum, err := os.ReadFile(filepath.Join(b.Repo, "fc", "go.sum")); err == nil {
		os.WriteFile(filepath.Join(mod, "go.sum"), sum, 0644)
	}
	off = filepath.Join(b.Dir, "bin", "libeng.off")
	if o, err := runCmd(mod, goEnv(), "go", "build", "-o", off, "./libeng"); err != nil {
		harnessFail("go build libeng failed: %v\n%s", err, o)
	}
	if verif {
		ver = filepath.Join(b.Dir, "bin", "libeng.verif")
		if o, err := runCmd(mod, goEnv(), "go", "build", "-tags", "verif", "-o", ver, "./libeng"); err != nil {
			harnessFail("go build -tags verif libeng failed: %v\n%s", err, o)
		}
	}
	return
}

func runLib(bin string, args ...string) int {
	cmd := exec.Command(bin, args...)
	cmd.Stdout = os.Stdout
	cmd.Stderr = os.Stderr
	err := cmd.Run()
	if err == nil {
		return 0
	}
	if ee, ok := err.(*exec.ExitError); ok {
		return ee.ExitCode()
	}
	harnessFail("cannot run %s: %v", bin, err)
	return 2
}

func checkLib(prop, tier string) {
	c := newCtx(prop, tier)
	c.B = NewBuild()
	defer c.Close()
	seed := fmt.Sprint(int64(c.Seed))
	switch prop {
	case "C12":
		off, _ := buildLibeng(c.B, false)
		rc := runLib(off, "C12", tier, seed, verifDir)
		c.Close()
		cleanupAll()
		os.Exit(rc)
	case "C14":
		off, ver := buildLibeng(c.B, true)
		p1 := filepath.Join(c.B.Dir, "c14-sched.json")
		p2 := filepath.Join(c.B.Dir, "c14-shipped.json")
		fmt.Println("configuration 1: verif build of pkg/dict, enumeration order decided by EnumSched")
		rc1 := runLib(ver, "C14", tier, seed, verifDir, p1)
		fmt.Println("configuration 2: shipped (tag-off) pkg/dict under Go's own map randomisation")
		rc2 := runLib(off, "C14", tier, seed, verifDir, p2)
		if rc1 == 1 || rc2 == 1 { // a replay-confirmed violation in either configuration decides
			if rc1 < 2 && rc2 < 2 {
				mergeC14(c, p1, p2)
			}
			c.Close()
			cleanupAll()
			os.Exit(1)
		}
		if rc1 >= 2 || rc2 >= 2 {
			c.Close()
			cleanupAll()
			os.Exit(2)
		}
		mergeC14(c, p1, p2)
		c.Close()
		cleanupAll()
		fmt.Printf("OK property=C14 tier=%s wall=%.1fs\n", tier, time.Since(c.T0).Seconds())
		os.Exit(0)
	}
}

func mergeC14(c *Ctx, paths ...string) {
	total, distinct, violations := 0, 0, 0
	parts := map[string]any{}
	var samples []any
	var known []string
	for _, p := range paths {
		b, err := os.ReadFile(p)
		if err != nil {
			harnessFail("C14 partial result missing: %v", err)
		}
		var m map[string]any
		if err := json.Unmarshal(b, &m); err != nil {
			harnessFail("C14 partial result: %v", err)
		}
		total += int(m["histories"].(float64))
		distinct += int(m["distinct_nontrivial"].(float64))
		violations += int(m["violations"].(float64))
		if s, ok := m["samples"].([]any); ok {
			samples = append(samples, s...)
		}
		if k, ok := m["known"].([]any); ok {
			for _, x := range k {
				known = append(known, fmt.Sprint(x))
			}
		}
		delete(m, "samples")
		parts[fmt.Sprint(m["config"])] = m
	}
	cov := map[string]any{
		"evaluations":         total,
		"distinct_nontrivial": distinct,
		"rule":                "one evaluation = one history of up to 40 operations over dictionaries (string->int, int->string; New, Add incl. overwrites, aliases, ToDict with duplicate keys, ToDict of KVs, reads), buffers (interleaved writes, aliases) and the pure helpers (strings.*, frt.Pipe/IfElse*/IfOnly/tuples/Sprintf*/SInterP over every Go integer kind, floats, strings, other values); a Go map / strings.Builder model is stepped in lock-step and after every dict/buf operation the full observable state of every live object is compared (ContainsKey, TryFind, Item on present keys for a small key universe; Keys/Values/KVs as multisets, each entry exactly once). Two configurations: 'sched' = verif build, enumeration order permuted by the history's seeded schedule (whole trace replays); 'shipped' = tag-off pkg/dict under Go's own randomisation (verdict replays; oracle is permutation-invariant). Distinct and non-trivial = (operations, enumeration trace) new within its batch of 20000 and the history has an overwrite, a duplicate-key ToDict or an enumeration of a dictionary with 2+ entries; pure-helper operations never make a history non-trivial.",
		"samples":             samples,
		"configurations":      parts,
		"known_findings_seen": known,
		"fault_kinds_injected": "none (history dimension; partly degenerate: the strings/frt helpers are pure and gain nothing from the technique, see simulation_relevant_ops vs pure_ops per configuration)",
		"real_vs_stub": map[string]string{
			"real":    "pkg/dict, pkg/buf, pkg/strings, pkg/frt compiled from the working tree",
			"stub":    "'sched' configuration only: enumeration order of dict.Keys/Values/KVs decided by the verif seam (the real loop still runs)",
			"outside": "Go runtime map implementation, fmt",
		},
	}
	if samples == nil {
		cov["samples"] = []any{}
	}
	ev := &common.Evidence{PropertyID: "C14", Tier: c.Tier, Seed: int64(c.Seed), Level: "exploration", Coverage: cov,
		Assumptions: []string{"floats: only 'does not fail and reads back as the value' is demanded of SInterP", "Item is only called on present keys"},
		WallS: time.Since(c.T0).Seconds(), Violations: violations}
	if err := ev.Write(filepath.Join(verifDir, "evidence", "C14.json")); err != nil {
		harnessFail("write evidence: %v", err)
	}
	_ = strings.TrimSpace
}
