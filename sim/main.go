package main

import (
	"fmt"
	"os"
	"path/filepath"
	"strings"

	"fosim/common"
)

func usage() {
	fmt.Fprintln(os.Stderr, `usage: fosim check <C04|C05|C07|C12|C14|C16|C18> <quick|thorough>
       fosim replay <file>
       fosim selftest-determinism
       fosim gen-test [n]`)
	os.Exit(2)
}

func main() {
	if len(os.Args) < 2 {
		usage()
	}
	defer cleanupAll()
	switch os.Args[1] {
	case "check":
		if len(os.Args) < 4 {
			usage()
		}
		tier := os.Args[3]
		if tier != "quick" && tier != "thorough" {
			usage()
		}
		switch os.Args[2] {
		case "C04":
			checkC04(tier)
		case "C05":
			checkC05(tier)
		case "C07":
			checkC07(tier)
		case "C12", "C14":
			checkLib(os.Args[2], tier)
		case "C16":
			checkC16(tier)
		case "C18":
			checkC18(tier)
		default:
			usage()
		}
	case "replay":
		if len(os.Args) < 3 {
			usage()
		}
		replay(os.Args[2])
	case "selftest-determinism":
		selftestDeterminism()
	case "gen-test":
		genTest()
	default:
		usage()
	}
}

// c05HandCorpus: hand-kept programs under /verif/corpus/fo (each run as `fc pkg_all.foi h/<name>.fo`).
func c05HandCorpus() []*Program {
	var out []*Program
	ents, _ := os.ReadDir(filepath.Join(verifDir, "corpus", "fo"))
	for _, e := range ents {
		if !strings.HasSuffix(e.Name(), ".fo") {
			continue
		}
		p := "h/" + e.Name()
		out = append(out, newProgram("hand:"+e.Name(), []string{"pkg/pkg_all.foi", p},
			map[string][]byte{"pkg/pkg_all.foi": pkgAllFoi, p: mustRead(filepath.Join(verifDir, "corpus", "fo", e.Name()))}, "hand"))
	}
	return out
}

// genTest is a development aid: acceptance rate of the generator against the shipped fc.
func genTest() {
	n := 200
	if len(os.Args) > 2 {
		fmt.Sscan(os.Args[2], &n)
	}
	c := newCtx("GEN", "quick", "fc")
	defer c.Close()
	pkgAllFoi = mustRead(filepath.Join(c.B.Repo, "pkg", "pkg_all.foi"))
	type out struct {
		name string
		exit int
		msg  string
		sc   *Scenario
	}
	res := parallel(c, n, func(i int) out {
		r := common.NewRng(common.Mix(c.Seed, 505, uint64(i)))
		o := swarmOpts(r)
		g := genItems(r, o, "")
		argv, files := cutFiles(g, r, 1, []string{"p"})
		files["pkg/pkg_all.foi"] = pkgAllFoi
		p := newProgram(fmt.Sprint("gen:", i), append([]string{"pkg/pkg_all.foi"}, argv...), files, "gen")
		sc := p.scenario("GEN", c.Seed, i)
		rr := c.sim(c.B.FcVerif, sc)
		return out{p.Name, rr.Exit, tail(rr.Stdout, 200) + tail(rr.Stderr, 300), sc}
	}, nil)
	acc := 0
	msgs := map[string]int{}
	first := map[string]*Scenario{}
	for _, o := range res {
		if o.exit == 0 {
			acc++
		} else {
			m := o.msg
			if i := strings.Index(m, "p/m0.fo:"); i >= 0 {
				m = m[i:]
				// strip position
				parts := strings.SplitN(m, "  ", 2)
				if len(parts) == 2 {
					m = parts[1]
				}
			}
			m = clip(m, 60)
			msgs[m]++
			if first[m] == nil {
				first[m] = o.sc
			}
		}
	}
	fmt.Printf("accepted %d / %d\n", acc, len(res))
	for _, k := range sortedKeys(msgs) {
		fmt.Printf("%4d  %s\n", msgs[k], strings.ReplaceAll(k, "\n", " | "))
	}
	if len(os.Args) > 3 {
		for k, sc := range first {
			if strings.Contains(k, os.Args[3]) {
				want := os.Args[3]
				judge := func(c *Ctx, s *Scenario) *Violation {
					rr := c.sim(c.B.FcVerif, s)
					if rr.Exit != 0 && strings.Contains(rr.Stdout+rr.Stderr, want) {
						return &Violation{Class: "x"}
					}
					return nil
				}
				sc = shrinkItems(c, sc, "x", judge)
				sc = shrinkLines(c, sc, "x", judge)
				b, _ := sc.Disk.Get("p/m0.fo")
				fmt.Printf("---- %s\n%s\n", k, b)
				rr := c.sim(c.B.FcVerif, sc)
				fmt.Println(rr.Stdout, tail(rr.Stderr, 1500))
				break
			}
		}
	}
}

// replay re-runs a replay file in fresh processes. Exit 1 (and a VIOLATION line) if the recorded violation
// reproduces, 0 if the property holds on the scenario now.
func replay(path string) {
	sc, err := loadScenario(path)
	if err != nil {
		harnessFail("replay: %v", err)
	}
	if sc.Property == "C12" || sc.Property == "C14" {
		replayLib(sc.Property, path)
	}
	var judge Judge
	want := []string{"fc"}
	switch sc.Property {
	case "C04":
		judge = judgeC04
		want = []string{"fc", "bsm"}
	case "C05":
		judge = judgeC05
	case "C07":
		judge = judgeC07
	case "C16":
		judge = judgeC16
	case "C18":
		judge = judgeC18
		want = []string{"bsm"}
	default:
		harnessFail("replay: no judge for property %q in this binary", sc.Property)
	}
	c := newCtx(sc.Property, "replay", want...)
	pkgAllFoi = mustRead(filepath.Join(c.B.Repo, "pkg", "pkg_all.foi"))
	if sc.Property == "C04" {
		self := corpusSelfBuild(c.B.Repo)
		id := self.scenario("C04", c.Seed, -1)
		r := c.sim(c.B.FcVerif, id)
		if r.Exit == 0 {
			c04Gen1Raw = r.Written()
		}
	}
	if sc.Property == "C18" {
		readme := mustRead(filepath.Join(c.B.Repo, "samples", "README.md"))
		if i := strings.Index(string(readme), "###"); i > 0 {
			c18Header = readme[:i]
		}
	}
	v := judge(c, sc)
	c.Close()
	if v == nil {
		fmt.Printf("NOT REPRODUCED: the property holds on this scenario (property=%s)\n", sc.Property)
		os.Exit(0)
	}
	fmt.Printf("violation class=%s signature=%s\n%s\n", v.Class, v.Signature, v.Detail)
	if sc.Expect != nil && sc.Expect.Signature != v.Signature {
		fmt.Printf("note: recorded signature was %s\n", sc.Expect.Signature)
	} else {
		fmt.Println("REPRODUCED")
	}
	fmt.Printf("VIOLATION property=%s replay=%s\n", sc.Property, path)
	os.Exit(1)
}

func replayLib(prop, path string) {
	c := newCtx(prop, "replay")
	c.B = NewBuild()
	off, ver := buildLibeng(c.B, prop == "C14")
	abs, _ := filepath.Abs(path)
	rc := runLib(off, prop, "replay", fmt.Sprint(int64(c.Seed)), verifDir, abs)
	if rc == 3 && ver != "" {
		rc = runLib(ver, prop, "replay", fmt.Sprint(int64(c.Seed)), verifDir, abs)
	}
	c.Close()
	cleanupAll()
	os.Exit(rc)
}
