package main

import (
	"sort"
	"strings"
)

// Item is one top-level item of a .fo/.foi file: package, import, let, type (with its and-group),
// package_info block, or the text before the first item ("prelude": comments, blank lines).
type Item struct {
	Kind     string
	Text     string
	Declares []string        // names this item introduces (over-approximated)
	Mentions map[string]bool // every identifier-like word in the item's text (comments and strings included)
}

var itemKeywords = map[string]bool{"package": true, "import": true, "let": true, "type": true, "package_info": true}

func isIdentStart(b byte) bool { return b == '_' || 'a' <= b && b <= 'z' || 'A' <= b && b <= 'Z' }
func isIdentChar(b byte) bool  { return isIdentStart(b) || '0' <= b && b <= '9' }

type ftoken struct {
	text string
	pos  int
	col0 bool // first character of its line
}

// lexFo is a rough lexer: identifiers/keywords, single punctuation characters; comments and string
// literals are skipped (they never start an item). It mirrors the skipping rules of fc's scanner.
func lexFo(src string) []ftoken {
	var out []ftoken
	i := 0
	lineStart := true
	for i < len(src) {
		c := src[i]
		switch {
		case c == '\n':
			lineStart = true
			i++
			continue
		case c == ' ' || c == '\t' || c == '\r':
			lineStart = false
			i++
			continue
		case c == '/' && i+1 < len(src) && src[i+1] == '/':
			for i < len(src) && src[i] != '\n' {
				i++
			}
			continue
		case c == '/' && i+1 < len(src) && src[i+1] == '*':
			j := strings.Index(src[i+2:], "*/")
			if j < 0 {
				i = len(src)
			} else {
				i = i + 2 + j + 2
			}
			lineStart = false
			continue
		case c == '"':
			i++
			for i < len(src) && src[i] != '"' {
				if src[i] == '\\' {
					i++
				}
				i++
			}
			i++
			lineStart = false
			continue
		case c == '`':
			i++
			for i < len(src) && src[i] != '`' {
				i++
			}
			i++
			lineStart = false
			continue
		case isIdentStart(c):
			j := i
			for j < len(src) && isIdentChar(src[j]) {
				j++
			}
			out = append(out, ftoken{src[i:j], i, lineStart})
			i = j
			lineStart = false
			continue
		default:
			out = append(out, ftoken{string(c), i, lineStart})
			i++
			lineStart = false
		}
	}
	return out
}

// chunkFo splits a source file into items. joinItems(chunkFo(s)) == s for every s.
func chunkFo(src string) []Item {
	toks := lexFo(src)
	var starts []int
	var kinds []string
	for _, t := range toks {
		if t.col0 && itemKeywords[t.text] {
			starts = append(starts, t.pos)
			kinds = append(kinds, t.text)
		}
	}
	var items []Item
	if len(starts) == 0 {
		return []Item{mkItem("prelude", src)}
	}
	if starts[0] > 0 {
		items = append(items, mkItem("prelude", src[:starts[0]]))
	}
	for k := range starts {
		end := len(src)
		if k+1 < len(starts) {
			end = starts[k+1]
		}
		items = append(items, mkItem(kinds[k], src[starts[k]:end]))
	}
	return items
}

func joinItems(items []Item) string {
	var sb strings.Builder
	for _, it := range items {
		sb.WriteString(it.Text)
	}
	return sb.String()
}

func mkItem(kind, text string) Item {
	it := Item{Kind: kind, Text: text, Mentions: map[string]bool{}}
	// mentions: every identifier-like word of the raw text
	for i := 0; i < len(text); {
		if isIdentStart(text[i]) {
			j := i
			for j < len(text) && isIdentChar(text[j]) {
				j++
			}
			it.Mentions[text[i:j]] = true
			i = j
		} else {
			i++
		}
	}
	toks := lexFo(text)
	decl := map[string]bool{}
	isName := func(i int) bool { return i < len(toks) && isIdentStart(toks[i].text[0]) }
	switch kind {
	case "let":
		if isName(1) {
			decl[toks[1].text] = true
		} else if len(toks) > 1 && toks[1].text == "(" {
			for i := 2; i < len(toks) && toks[i].text != ")" && toks[i].text != "="; i++ {
				if isName(i) {
					decl[toks[i].text] = true
				}
			}
		}
	case "type":
		for i, t := range toks {
			switch {
			case (t.text == "type" || t.text == "and") && isName(i+1):
				decl[toks[i+1].text] = true
			case t.text == "|" && isName(i+1):
				decl[toks[i+1].text] = true
			case isName(i) && i+1 < len(toks) && toks[i+1].text == ":":
				decl[t.text] = true // record field
			}
		}
	case "package_info":
		if isName(1) {
			decl[toks[1].text] = true
		}
		for i, t := range toks {
			if (t.text == "let" || t.text == "type") && isName(i+1) {
				decl[toks[i+1].text] = true
			}
		}
	}
	delete(decl, "_")
	for k := range decl {
		it.Declares = append(it.Declares, k)
	}
	sort.Strings(it.Declares)
	return it
}

func (it *Item) isHeader() bool {
	return it.Kind == "package" || it.Kind == "import" || it.Kind == "prelude"
}

// dependsOn over-approximates "a (later) may depend on b (earlier)": a mentions a name b declares, or both
// declare a common name (then their relative order can matter, e.g. which record a literal resolves to).
func dependsOn(a, b *Item) bool {
	if b.isHeader() {
		return true
	}
	for _, d := range b.Declares {
		if a.Mentions[d] {
			return true
		}
	}
	return false
}

func conflicts(a, b *Item) bool {
	for _, d := range a.Declares {
		for _, e := range b.Declares {
			if d == e {
				return true
			}
		}
	}
	return false
}
