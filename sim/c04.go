package main

import (
	"bytes"
	"context"
	"encoding/base64"
	"encoding/json"
	"fmt"
	"os"
	"os/exec"
	"path/filepath"
	"strings"
	"time"

	"fosim/common"
)

// ---- C04: checked-in generated Go is a fixed point of the self-hosted compiler, under every schedule ----

type c04Extra struct {
	Stage      string            `json:"stage"`      // self-build | sample | tool | readme | generation2
	Generation int               `json:"generation"` // which compiler generation runs
	Gofmt      bool              `json:"gofmt"`      // compare after gofmt
	Expect     map[string]string `json:"expect"`     // path -> base64 of the bytes the file must have
	// SkipIfRejected: an invocation fc rejects is not judged (grouped samples: nothing promises they can share one)
	SkipIfRejected bool `json:"skip_if_rejected,omitempty"`
}

func gofmtBytes(src []byte) ([]byte, error) {
	bin := "gofmt"
	if out, err := exec.Command("go", "env", "GOROOT").Output(); err == nil {
		p := filepath.Join(strings.TrimSpace(string(out)), "bin", "gofmt")
		if _, err := os.Stat(p); err == nil {
			bin = p
		}
	}
	cmd := exec.Command(bin)
	cmd.Stdin = bytes.NewReader(src)
	var out, errb bytes.Buffer
	cmd.Stdout = &out
	cmd.Stderr = &errb
	if err := cmd.Run(); err != nil {
		return nil, fmt.Errorf("gofmt: %v: %s", err, clip(errb.String(), 300))
	}
	return out.Bytes(), nil
}

var c04Gen2Fc string  // second-generation compiler (built lazily)
var c04Gen2Bsm string // build_sample_md built from regenerated Go

func c04Binary(c *Ctx, sc *Scenario, ex *c04Extra) string {
	if sc.Program == "build_sample_md" {
		if c04Gen2Bsm != "" {
			return c04Gen2Bsm
		}
		return c.B.BsmVerif
	}
	if ex.Generation == 2 {
		if c04Gen2Fc == "" {
			c04BuildGen2(c)
		}
		return c04Gen2Fc
	}
	return c.B.FcVerif
}

func judgeC04(c *Ctx, sc *Scenario) *Violation {
	var ex c04Extra
	if err := json.Unmarshal(sc.Extra, &ex); err != nil {
		harnessFail("C04 scenario without extra: %v", err)
	}
	if ex.Stage == "recipe" {
		return c04Recipe(c, sc.Note)
	}
	if len(sc.Faults) > 0 {
		r := c.sim(c04Binary(c, sc, &ex), sc)
		if r.Exit != 0 {
			return nil // a run that says it failed promises nothing here (what it leaves behind is C16's question)
		}
		v := c04Oracle(sc, &ex, r)
		if v != nil {
			v.Class = "silent-under-fault"
			v.Signature = "C04:" + ex.Stage + ":exit0-under-fault"
			v.Detail = fmt.Sprintf("with I/O fault %+v the run still exits 0, but: %s", sc.Faults, v.Detail)
		}
		return v
	}
	if sc.Real {
		// self-build over a real tree that already holds (damaged, newer) outputs: every one must come out as into
		// an empty tree
		rr := RunReal(c.B.FcOff, sc, c.Work)
		for _, p := range sortedKeys(c04Gen1Raw) {
			got, ok := rr.Changed[p]
			if rr.Exit != 0 || !ok || !bytes.Equal(got, c04Gen1Raw[p]) {
				return &Violation{Class: "real-disk", Signature: "C04:" + ex.Stage + ":" + p,
					Detail: fmt.Sprintf("over a tree that already holds damaged generated files newer than the sources, the shipped fc (exit %d) leaves %s different from what it generates into an empty tree", rr.Exit, p)}
			}
		}
		return nil
	}
	r := c.sim(c04Binary(c, sc, &ex), sc)
	return c04Oracle(sc, &ex, r)
}

func c04Oracle(sc *Scenario, exp *c04Extra, r *Result) *Violation {
	ex := *exp
	if r.Exit != 0 && ex.SkipIfRejected {
		return nil
	}
	if r.Exit != 0 {
		return &Violation{Class: "stage-failed", Signature: "C04:" + ex.Stage + ":exit",
			Detail: fmt.Sprintf("%s: the generation-%d tool exited %d on the repository's own sources: %s", ex.Stage, ex.Generation, r.Exit, tail(r.Stdout+r.Stderr, 400))}
	}
	w := r.Written()
	for _, p := range sortedKeys(ex.Expect) {
		want, _ := base64.StdEncoding.DecodeString(ex.Expect[p])
		got, ok := w[p]
		if !ok {
			return &Violation{Class: "missing", Signature: "C04:" + ex.Stage + ":" + p, Detail: fmt.Sprintf("%s: %s was not written", ex.Stage, p)}
		}
		if ex.Gofmt {
			f, err := gofmtBytes(got)
			if err != nil {
				return &Violation{Class: "differs", Signature: "C04:" + ex.Stage + ":" + p, Detail: fmt.Sprintf("%s: regenerated %s does not pass gofmt: %v", ex.Stage, p, err)}
			}
			got = f
		}
		if !bytes.Equal(got, want) {
			what := "the checked-in file"
			if ex.Stage == "generation2" {
				what = "generation 1's output"
			}
			return &Violation{Class: "differs", Signature: "C04:" + ex.Stage + ":" + p,
				Detail: fmt.Sprintf("%s: regenerated %s differs from %s (schedule %s): %s", ex.Stage, p, what, schedName(sc.Enum), diffSummary(want, got))}
		}
	}
	for p := range w {
		if _, ok := ex.Expect[p]; !ok {
			return &Violation{Class: "extra", Signature: "C04:" + ex.Stage + ":" + p, Detail: fmt.Sprintf("%s: unexpected file %s written", ex.Stage, p)}
		}
	}
	return nil
}

// c04Recipe runs the repository's own regeneration scripts (fc/fc_all.sh, samples/build_all.sh with myfc.sh) the
// way a maintainer does: in a copy of the working tree, with the shipped binaries built from that tree, real sh,
// real go fmt. mode "deleted": every listed generated file and README.md are removed first; mode "stale": they
// hold old (valid Go) content, one of them is empty. Afterwards every one must equal the checked-in file.
func c04Recipe(c *Ctx, mode string) *Violation {
	repo := c.B.Repo
	dir, err := os.MkdirTemp(c.Work, "recipe-")
	if err != nil {
		harnessFail("recipe dir: %v", err)
	}
	defer os.RemoveAll(dir)
	if err := copyTree(repo, dir, func(rel string, isDir bool) bool {
		top := strings.Split(rel, string(filepath.Separator))[0]
		return !(top == "fc" || top == "cmd" || top == "pkg" || top == "samples" || top == "go.mod" || top == "go.sum")
	}); err != nil {
		harnessFail("recipe copy: %v", err)
	}
	var outputs []string
	for _, p := range append(append([]*Program{corpusSelfBuild(repo)}, corpusSamples(repo)...), corpusTool(repo)) {
		outputs = append(outputs, p.Outputs...)
	}
	outputs = append(outputs, "samples/README.md")
	for i, o := range outputs {
		full := filepath.Join(dir, o)
		switch {
		case strings.HasPrefix(o, "cmd/"):
			// no script regenerates the tool's own gen file; it is left as it is
		case mode == "deleted":
			os.Remove(full)
		case i%7 == 3:
			os.WriteFile(full, nil, 0644)
		case strings.HasSuffix(o, ".go"):
			os.WriteFile(full, []byte("// output of an older compiler\npackage main\n"), 0644)
		default:
			os.WriteFile(full, []byte("stale\n"), 0644)
		}
	}
	cp := func(from, to string) {
		b := mustRead(from)
		if err := os.WriteFile(filepath.Join(dir, to), b, 0755); err != nil {
			harnessFail("recipe: %v", err)
		}
	}
	cp(c.B.FcOff, "fc/fc")
	cp(c.B.FcOff, "samples/fc")
	cp(c.B.BsmOff, "samples/build_sample_md")
	var log bytes.Buffer
	for _, step := range [][2]string{{"fc", "fc_all.sh"}, {"samples", "build_all.sh"}} {
		ctx, cancel := context.WithTimeout(context.Background(), 10*time.Minute)
		cmd := exec.CommandContext(ctx, "sh", step[1])
		cmd.Dir = filepath.Join(dir, step[0])
		cmd.Env = append(os.Environ(), "GOFLAGS=-mod=mod", "GOPROXY=off", "GOSUMDB=off", "GOTOOLCHAIN=local")
		cmd.Stdout, cmd.Stderr = &log, &log
		err := cmd.Run()
		cancel()
		fmt.Fprintf(&log, "[%s/%s: %v]\n", step[0], step[1], err)
	}
	for _, o := range outputs {
		if strings.HasPrefix(o, "cmd/") {
			continue
		}
		want := mustRead(filepath.Join(repo, o))
		got, err := os.ReadFile(filepath.Join(dir, o))
		if err != nil {
			return &Violation{Class: "recipe", Signature: "C04:recipe:" + o,
				Detail: fmt.Sprintf("after fc/fc_all.sh and samples/build_all.sh on a copy of the working tree (generated files %s beforehand) %s does not exist; script output ends: %s", mode, o, tail(log.String(), 300))}
		}
		if !bytes.Equal(got, want) {
			return &Violation{Class: "recipe", Signature: "C04:recipe:" + o,
				Detail: fmt.Sprintf("after fc/fc_all.sh and samples/build_all.sh on a copy of the working tree (generated files %s beforehand) %s differs from the checked-in file: %s; script output ends: %s", mode, o, diffSummary(want, got), tail(log.String(), 300))}
		}
	}
	return nil
}

func schedName(e EnumSched) string {
	if e.Mode == "seeded" {
		return fmt.Sprintf("seeded/%s/%d", e.Style, e.Seed)
	}
	if e.Mode == "tape" {
		return fmt.Sprintf("tape/%d points", len(e.Tape))
	}
	return "identity"
}

func shrinkC04(c *Ctx, sc *Scenario, v *Violation, judge Judge) (*Scenario, *Violation) {
	if sc.Enum.Mode == "identity" || sc.Enum.Mode == "" {
		return sc, v
	}
	// fails under the identity schedule too? then the schedule is irrelevant
	id := sc.Clone()
	id.Extra = sc.Extra
	id.Enum = EnumSched{Mode: "identity"}
	if nv := judge(c, id); nv != nil && nv.Class == v.Class {
		return id, nv
	}
	cur := shrinkTape(c, sc, v.Class, judge)
	if nv := judge(c, cur); nv != nil && nv.Class == v.Class {
		return cur, nv
	}
	return sc, v
}

// c04BuildGen2 overwrites the instrumented copy's gen_*.go with generation 1's gofmt-ed output (identity
// schedule) and builds the second-generation compiler and the rebuilt build_sample_md from it.
var c04Gen1Raw map[string][]byte

func c04BuildGen2(c *Ctx) {
	if c04Gen1Raw == nil {
		harnessFail("generation 1 output not available")
	}
	dir := filepath.Join(c.B.Dir, "gen2")
	if err := copyTree(c.B.Repo, dir, func(rel string, isDir bool) bool {
		top := strings.Split(rel, string(filepath.Separator))[0]
		return !(top == "fc" || top == "cmd" || top == "pkg" || top == "go.mod" || top == "go.sum")
	}); err != nil {
		harnessFail("gen2 copy: %v", err)
	}
	for p, raw := range c04Gen1Raw {
		f, err := gofmtBytes(raw)
		if err != nil {
			harnessFail("gen2: generation 1 output %s does not pass gofmt: %v", p, err)
		}
		if err := os.WriteFile(filepath.Join(dir, p), f, 0644); err != nil {
			harnessFail("gen2: %v", err)
		}
	}
	instrumentLibs(filepath.Join(dir, "pkg"))
	instrumentDir(filepath.Join(dir, "fc"), true)
	c04Gen2Fc = filepath.Join(c.B.Dir, "bin", "fc.gen2.verif")
	c.B.goBuild(filepath.Join(dir, "fc"), c04Gen2Fc, true)
	instrumentDir(filepath.Join(dir, "cmd", "build_sample_md"), false)
	c04Gen2Bsm = filepath.Join(c.B.Dir, "bin", "bsm.gen2.verif")
	c.B.goBuild(filepath.Join(dir, "cmd", "build_sample_md"), c04Gen2Bsm, true)
}

func c04Scenario(c *Ctx, p *Program, run int, ex c04Extra, sched EnumSched) *Scenario {
	sc := p.scenario("C04", c.Seed, run)
	sc.Enum = sched
	sc.TickBudget = c05Budget
	b, _ := json.Marshal(ex)
	sc.Extra = b
	return sc
}

func checkC04(tier string) {
	c := newCtx("C04", tier, "fc", "bsm")
	repo := c.B.Repo
	quick := tier == "quick"
	selfM, sampleM, gen2M := 30, 10, 8
	if !quick {
		selfM, sampleM, gen2M = 400, 150, 60
	}
	expectOf := func(paths []string) map[string]string {
		m := map[string]string{}
		for _, p := range paths {
			m[p] = base64.StdEncoding.EncodeToString(mustRead(filepath.Join(repo, p)))
		}
		return m
	}
	self := corpusSelfBuild(repo)
	samples := corpusSamples(repo)
	tool := corpusTool(repo)

	// every checked-in generated file must have a source that regenerates it
	checkedIn := map[string]bool{}
	for _, pat := range []string{"fc/gen_*.go", "samples/gen_*.go", "cmd/build_sample_md/gen_*.go"} {
		ms, _ := filepath.Glob(filepath.Join(repo, pat))
		for _, m := range ms {
			rel, _ := filepath.Rel(repo, m)
			checkedIn[rel] = true
		}
	}
	regenerated := map[string]bool{}
	for _, p := range append(append([]*Program{self}, samples...), tool) {
		for _, o := range p.Outputs {
			regenerated[o] = true
		}
	}
	violations := 0
	for _, f := range sortedKeys(checkedIn) {
		if !regenerated[f] {
			// samples/gen_*.go not in filelist.txt are outside the property's statement ("every sample in filelist.txt")
			c.count("checked_in_generated_file_without_listed_source", 1)
		}
	}
	for _, f := range sortedKeys(regenerated) {
		if !checkedIn[f] {
			fmt.Printf("violation: %s has no checked-in counterpart\n", f)
			sc := c04Scenario(c, self, -2, c04Extra{Stage: "inventory", Generation: 1}, EnumSched{Mode: "identity"})
			sc.Note = "missing checked-in file " + f
			path := filepath.Join(verifDir, "replays", fmt.Sprintf("C04-%d-inventory.json", int64(c.Seed)))
			saveScenario(path, sc)
			fmt.Printf("VIOLATION property=C04 replay=%s\n", path)
			violations++
		}
	}

	type job struct {
		sc *Scenario
	}
	var jobs []job
	mkScheds := func(m int, stream uint64) []EnumSched {
		out := []EnumSched{{Mode: "identity"}}
		r := common.NewRng(common.Mix(c.Seed, 4, stream))
		for j := 0; j < m; j++ {
			out = append(out, EnumSched{Mode: "seeded", Seed: r.Next(), Style: enumStyles[j%len(enumStyles)]})
		}
		return out
	}
	run := 0
	for _, s := range mkScheds(selfM, 1) {
		jobs = append(jobs, job{c04Scenario(c, self, run, c04Extra{Stage: "self-build", Generation: 1, Gofmt: true, Expect: expectOf(self.Outputs)}, s)})
		run++
	}
	for i, p := range samples {
		for _, s := range mkScheds(sampleM, uint64(100+i)) {
			jobs = append(jobs, job{c04Scenario(c, p, run, c04Extra{Stage: "sample", Generation: 1, Gofmt: true, Expect: expectOf(p.Outputs)}, s)})
			run++
		}
	}
	for _, s := range mkScheds(sampleM, 99) {
		jobs = append(jobs, job{c04Scenario(c, tool, run, c04Extra{Stage: "tool", Generation: 1, Gofmt: true, Expect: expectOf(tool.Outputs)}, s)})
		run++
	}
	// other groupings of the same sources into invocations (the statement does not fix one): all listed samples in
	// one fc invocation, and random sub-lists of them (list order kept). A grouped invocation that fc rejects is
	// skipped (samples are separate programs, nothing promises they can share an invocation); one that is accepted
	// must reproduce the checked-in files like the one-at-a-time recipe does.
	{
		gr := common.NewRng(common.Mix(c.Seed, 44))
		groups := [][]int{}
		all := make([]int, len(samples))
		for i := range all {
			all[i] = i
		}
		groups = append(groups, all)
		nGroups := 12
		if !quick {
			nGroups = 300
		}
		for k := 0; k < nGroups; k++ {
			var g []int
			want := gr.Range(2, 6)
			for i := range samples {
				if gr.Intn(len(samples)) < want {
					g = append(g, i)
				}
			}
			if len(g) >= 2 {
				groups = append(groups, g)
			}
		}
		foi := mustRead(filepath.Join(repo, "pkg", "pkg_all.foi"))
		for gi, g := range groups {
			files := map[string][]byte{"pkg/pkg_all.foi": foi}
			argv := []string{"pkg/pkg_all.foi"}
			for _, i := range g {
				a := samples[i].Argv[1]
				files[a] = mustRead(filepath.Join(repo, a))
				argv = append(argv, a)
			}
			p := newProgram(fmt.Sprintf("samples-grouped:%d(%d files)", gi, len(g)), argv, files, "corpus")
			scheds := []EnumSched{{Mode: "identity"}}
			if gi == 0 {
				scheds = mkScheds(sampleM, 98)
			}
			for _, s := range scheds {
				jobs = append(jobs, job{c04Scenario(c, p, run, c04Extra{Stage: "samples-grouped", Generation: 1, Gofmt: true, Expect: expectOf(p.Outputs), SkipIfRejected: true}, s)})
				run++
			}
		}
	}
	type outcome struct {
		sc *Scenario
		v  *Violation
	}
	c.phase(fmt.Sprintf("generation 1: %d pipeline-stage runs", len(jobs)))
	record := func(sc *Scenario) {
		// bookkeeping for evidence: one evaluation per stage run; distinct by enumeration trace
	}
	_ = record
	outs := parallel(c, len(jobs), func(i int) outcome {
		sc := jobs[i].sc
		var ex c04Extra
		json.Unmarshal(sc.Extra, &ex)
		r := c.sim(c.B.FcVerif, sc)
		if sc.Enum.Mode == "identity" || r.PermutedPoints() > 0 {
			if c.markDistinct("trace:" + sc.Note + "|" + r.EnumTraceHash()) {
				c.count("distinct_nontrivial", 1)
			}
		}
		if i < 4 || i%53 == 0 {
			c.addSample(map[string]any{"stage": ex.Stage, "program": sc.Note, "schedule": schedName(sc.Enum), "enum_points": len(r.Enums()),
				"points_permuted": r.PermutedPoints(), "ticks": r.Ticks, "files_compared": sortedKeys(ex.Expect)}, 10)
		}
		return outcome{sc, c04Oracle(sc, &ex, r)}
	}, nil)

	// generation 1's raw self-build output under the identity schedule is what generation 2 must reproduce
	{
		sc := c04Scenario(c, self, -1, c04Extra{}, EnumSched{Mode: "identity"})
		r := c.sim(c.B.FcVerif, sc)
		if r.Exit != 0 {
			fmt.Printf("generation 1 self-build failed: %s\n", tail(r.Stdout, 300))
		} else {
			c04Gen1Raw = r.Written()
		}
	}
	var outs2 []outcome
	if c04Gen1Raw != nil {
		c.phase("building the second-generation compiler from the regenerated output")
		c04BuildGen2(c)
		raw := map[string]string{}
		for p, b := range c04Gen1Raw {
			raw[p] = base64.StdEncoding.EncodeToString(b)
		}
		var jobs2 []job
		for _, s := range mkScheds(gen2M, 2) {
			jobs2 = append(jobs2, job{c04Scenario(c, self, run, c04Extra{Stage: "generation2", Generation: 2, Gofmt: false, Expect: raw}, s)})
			run++
		}
		// README.md through the rebuilt tool
		rsc := &Scenario{V: 1, Property: "C04", Seed: c.Seed, Run: run, Program: "build_sample_md", Argv: []string{"samples/filelist.txt"},
			Enum: EnumSched{Mode: "identity"}, Note: "README via rebuilt build_sample_md", TickBudget: c05Budget}
		rsc.Disk.Put("samples/filelist.txt", mustRead(filepath.Join(repo, "samples", "filelist.txt")), "corpus")
		for _, nme := range sampleList(repo) {
			rsc.Disk.Put("samples/"+nme, mustRead(filepath.Join(repo, "samples", nme)), "corpus")
		}
		rsc.Disk.Put("samples/README.md", []byte("stale\n"), "stale")
		b, _ := json.Marshal(c04Extra{Stage: "readme", Generation: 2, Expect: expectOf([]string{"samples/README.md"})})
		rsc.Extra = b
		jobs2 = append(jobs2, job{rsc})
		run++
		c.phase(fmt.Sprintf("generation 2 and README: %d runs", len(jobs2)))
		outs2 = parallel(c, len(jobs2), func(i int) outcome {
			sc := jobs2[i].sc
			return outcome{sc, judgeC04(c, sc)}
		}, nil)
	} else {
		violations++
	}

	// seam fidelity + the recipe as a user runs it: shipped binary on a real directory
	c.phase("shipped binary on a real directory (seam fidelity)")
	{
		sc := self.scenario("C04", c.Seed, -3)
		rr := RunReal(c.B.FcOff, sc, c.Work)
		if rr.Exit != 0 {
			harnessFail("shipped fc fails the self-build on a real directory (exit %d) while the simulated run did not: %s", rr.Exit, tail(rr.Stdout, 300))
		}
		if c04Gen1Raw != nil {
			for p, b := range c04Gen1Raw {
				got, ok := rr.Changed[p]
				if !ok {
					if old, had := sc.Disk.Get(p); had && bytes.Equal(old, b) {
						continue
					}
					harnessFail("seam fidelity: shipped fc did not write %s", p)
				}
				if !bytes.Equal(got, b) {
					// explained only if a schedule-dependence was found above
					dep := false
					for _, o := range outs {
						if o.v != nil {
							dep = true
						}
					}
					if !dep {
						harnessFail("seam fidelity: shipped fc wrote %s differently from the simulated identity run and no schedule explains it", p)
					}
				}
			}
		}
		c.count("shipped_binary_runs", 1)
		// the same over a tree that already holds outputs, damaged and newer than the sources (an interrupted
		// regeneration, a hand-edited generated file): every one of them must be repaired
		if c04Gen1Raw != nil {
			sc2 := self.scenario("C04", c.Seed, -4)
			for i, p := range sortedKeys(c04Gen1Raw) {
				b := c04Gen1Raw[p]
				switch i % 3 {
				case 0:
					sc2.Disk.Put(p, b[:len(b)/2], "torn output of an interrupted run")
				case 1:
					sc2.Disk.Put(p, append(append([]byte{}, b...), []byte("\n// stray edit\n")...), "hand-edited output")
				default:
					sc2.Disk.Put(p, []byte("// output of an older compiler\npackage main\n"), "old output")
				}
			}
			rr2 := RunReal(c.B.FcOff, sc2, c.Work)
			c.count("shipped_binary_runs", 1)
			for _, p := range sortedKeys(c04Gen1Raw) {
				got, ok := rr2.Changed[p]
				if rr2.Exit != 0 || !ok || !bytes.Equal(got, c04Gen1Raw[p]) {
					b, _ := json.Marshal(c04Extra{Stage: "self-build-over-damaged-outputs", Generation: 1})
					sc2.Extra = b
					sc2.Real = true
					path := filepath.Join(verifDir, "replays", fmt.Sprintf("C04-%d-damaged-outputs.json", int64(c.Seed)))
					saveScenario(path, sc2)
					fmt.Printf("violation class=real-disk signature=C04:self-build-over-damaged-outputs:%s\nover a tree that already holds damaged generated files newer than the sources, the shipped fc (exit %d) leaves %s different from what it generates into an empty tree (repaired: %v)\n", p, rr2.Exit, p, ok)
					fmt.Printf("VIOLATION property=C04 replay=%s\n", path)
					violations++
					break
				}
			}
		}
	}

	// the repository's own scripts, as a maintainer runs them
	c.phase("regeneration recipe: fc/fc_all.sh and samples/build_all.sh on a copy of the working tree")
	for _, mode := range []string{"deleted", "stale"} {
		c.count("recipe_runs", 1)
		if v := c04Recipe(c, mode); v != nil {
			sc := &Scenario{V: 1, Property: "C04", Seed: c.Seed, Run: -10, Program: "fc", Real: true, Note: mode, Enum: EnumSched{Mode: "identity"}}
			b, _ := json.Marshal(c04Extra{Stage: "recipe", Generation: 1})
			sc.Extra = b
			outs2 = append(outs2, outcome{sc, v})
		}
	}

	// one I/O fault per run: a run that still says success must have reproduced the checked-in files
	c.phase("self-build, tool and samples under one I/O fault")
	{
		var fjobs []*Scenario
		progs := append([]*Program{self, tool}, samples...)
		stages := []string{"self-build", "tool"}
		for pi, p := range progs {
			stage := "sample"
			if pi < len(stages) {
				stage = stages[pi]
			}
			base := c04Scenario(c, p, run, c04Extra{Stage: stage, Generation: 1, Gofmt: true, Expect: expectOf(p.Outputs)}, EnumSched{Mode: "identity"})
			run++
			r0 := c.sim(c.B.FcVerif, base)
			fr := common.NewRng(common.Mix(c.Seed, 404, uint64(pi)))
			for k := range r0.Reads() {
				sc := base.Clone()
				sc.Extra = base.Extra
				sc.Faults = []Fault{{Op: "read", Nth: k + 1, Kind: "error"}}
				fjobs = append(fjobs, sc)
			}
			for k, w := range r0.Writes() {
				sc := base.Clone()
				sc.Extra = base.Extra
				sc.Faults = []Fault{{Op: "write", Nth: k + 1, Kind: "error"}}
				fjobs = append(fjobs, sc)
				sc2 := base.Clone()
				sc2.Extra = base.Extra
				sc2.Faults = []Fault{{Op: "write", Nth: k + 1, Kind: "enospc", After: fr.Intn(w.Len + 1)}}
				fjobs = append(fjobs, sc2)
			}
		}
		fouts := parallel(c, len(fjobs), func(i int) outcome {
			c.count("fault_runs", 1)
			return outcome{fjobs[i], judgeC04(c, fjobs[i])}
		}, nil)
		outs2 = append(outs2, fouts...)
	}

	c.phase("reporting")
	seen := map[string]bool{}
	for _, o := range append(outs, outs2...) {
		if o.v == nil {
			continue
		}
		c.count("raw_violation:"+o.v.Signature, 1)
		if seen[o.v.Signature] {
			continue
		}
		seen[o.v.Signature] = true
		ssc, sv := shrinkC04(c, o.sc, o.v, judgeC04)
		ssc.Extra = o.sc.Extra
		if c.report(ssc, sv, judgeC04, nil) {
			violations++
		}
	}
	c.writeEvidence("exploration", len(outs)+len(outs2), c.Counters["distinct_nontrivial"]+len(outs2),
		"one evaluation = one simulated pipeline-stage run (self-build of the 12 compiler sources, one listed sample, the tool, README.md through the rebuilt tool, second-generation self-build) under one enumeration schedule, compared byte-for-byte with the checked-in file after gofmt (generation 2: with generation 1's raw output); distinct and non-trivial = its (program, enumeration-trace hash) is new and, for non-identity schedules, at least one enumeration point with n>=2 was really permuted.",
		map[string]any{
			"stage_runs_generation1":                len(outs),
			"stage_runs_generation2_and_readme":     len(outs2),
			"checked_in_generated_files":            len(checkedIn),
			"files_with_listed_source":              len(regenerated),
			"schedules_self_build":                  selfM + 1,
			"schedules_per_sample":                  sampleM + 1,
			"schedules_generation2":                 gen2M + 1,
			"fault_kinds_injected":                  "one fault per run in a separate leg (every read of the self-build, the tool and each sample failing; every write failing at open or with ENOSPC after n bytes): a run that still exits 0 must have reproduced the checked-in files; a run that fails is not judged here. All other legs are fault-free.",
			"recipe_leg":                            "fc/fc_all.sh and samples/build_all.sh (with myfc.sh, go fmt, the rebuilt build_sample_md) run by sh on a copy of the working tree with the shipped binaries built from it, once with every listed generated file and README.md deleted, once with them stale or empty; every one must equal the checked-in file afterwards",
			"real_directory_leg":                    "the shipped fc runs the self-build twice on a real directory: into a tree without outputs (must equal the simulated identity run: seam fidelity) and over a tree whose 12 outputs are present, torn / hand-edited / old, and newer than the sources (every one must come out as into an empty tree)",
			"grouped_invocations":                   "all listed samples in one fc invocation (under schedules) and random sub-lists; a grouped invocation fc rejects is skipped",
			"exhaustive":                            false,
		},
		[]string{"gofmt is the toolchain's binary", "samples/gen_*.go without an entry in samples/filelist.txt are outside the statement"},
		violations)
	finish(c, violations)
}
