package main

import (
	"strings"

	"fosim/common"
)

// ---- damage to stored files: what a torn write, a bad sector or a careless edit leaves behind ----

// interestingOffsets returns offsets biased toward token boundaries, comment and string interiors and the
// end of the file.
func interestingOffsets(src []byte) []int {
	var out []int
	toks := lexFo(string(src))
	for _, t := range toks {
		out = append(out, t.pos, t.pos+len(t.text))
	}
	s := string(src)
	for _, marker := range []string{"//", "/*", "*/", "\"", "`", "$\"", "\n", "{", "}", "|>", "->"} {
		from := 0
		for n := 0; n < 40; n++ {
			i := strings.Index(s[from:], marker)
			if i < 0 {
				break
			}
			out = append(out, from+i, from+i+1, from+i+len(marker))
			from += i + len(marker)
		}
	}
	for i := len(src) - 64; i <= len(src); i++ {
		if i >= 0 {
			out = append(out, i)
		}
	}
	return out
}

func pickOffset(r *common.Rng, src []byte, cands []int) int {
	if len(src) == 0 {
		return 0
	}
	if len(cands) > 0 && r.Chance(3, 4) {
		o := cands[r.Intn(len(cands))]
		if o < 0 {
			o = 0
		}
		if o > len(src) {
			o = len(src)
		}
		return o
	}
	return r.Intn(len(src) + 1)
}

var poison = []string{
	"let zzA x = x x\n",
	"let zzB x y = (x y, y x)\n",
	"let zzC s =\n  match s s with\n  | _ -> 1\n",
	"let zzD x = [x; [x]]\n",
	"let zzI x = [x; [x]; [[x]]]\n",
	"let zzM a b c =\n  [a; [[b]]]\n  [b; [[c]]]\n  [c; [[a]]]\n  [a; [c]]\n",
	"package_info _ =\n  type ZzBox<T>\n  let zzwrap<T>: T->ZzBox<T>\n  let zzwrap2<T>: T->ZzBox<ZzBox<T>>\n\nlet zzN x =\n  [x; zzwrap2 x; zzwrap x]\n",
	"let zzO a c =\n  [a; c]\n  [a; [[c]]]\n",
	"let zzJ n = [n; n.next; n.next.next]\n",
	"let zzK x = [x; (x, x); ((x, x), (x, x))]\n",
	"let zzL x =\n  let a = [x]\n  let b = [a]\n  [x; a; b]\n",
	"let zzE x = x (x, x)\n",
	"let zzF f = f f 1\n",
	"let rec zzG x = zzG x\n",
	"let zzH x =\n  let y = x y\n  y\n",
	"/* open comment",
	"\"open string",
	"`open raw",
	"$\"{open",
	"// comment at end of input",
	"  // indented comment at end of input",
	"/*",
	"//",
	"/",
	"$",
	"\\",
	"type ZzT = {",
	"type ZzU =\n  |",
	"let zz = [1; 2",
	"let zz (a:",
	"package_info _ =\n  let",
	"match",
	"let zz () =\n  match 1 with\n",
	"123",
	"let zz = 123",
	"let zz = \"a\" + 1\n",
	"let zz (a:int) = a.Foo\n",
	"let zz () = undefinedThing\n",
	"type ZzR = {ZzA: ZzR}\n",
	"type ZzV =\n  | ZzV1 of ZzV\n",
	"let zz<T> (a:T) = a\n",
	"type ZzA2 = {ZzN: int}\ntype ZzA2 = {ZzX: ZzA2}\n",
	"type ZzP<T> = {ZzPa: T; ZzPb: T}\ntype ZzQ = {ZzQp: ZzP<ZzQ>}\n",
	"import dict\ntype ZzD = {ZzDa: dict.Dict<string, ZzD>}\nlet zzd (r:ZzD) = r\n",
	"type ZzO<T> =\n  | ZzS of T\n  | ZzNn\ntype ZzR2 = {ZzF: ZzO<ZzR2>}\nlet zzr (r:ZzR2) = r\n",
	"type ZzT3 = {ZzF3: ZzT3*int}\n",
	"type ZzFn = {ZzCall: ZzFn->int}\n",
	"type ZzM1 = {ZzM1f: []ZzM2}\nand ZzM2 = {ZzM2f: ZzM1*ZzM1}\n",
	"type ZzG<T> = {ZzGv: T; ZzGn: ZzG<[]T>}\n",
	"type ZzW<T> =\n  | ZzWa of ZzW<ZzW<T>>\n  | ZzWb of T\nlet zzw (w:ZzW<int>) = w\n",
	"let zz = fun x -> x x\n",
	"\t",
	"\r\n",
	"\x00",
	"\xff\xfe",
	"é",
}

// applyDamage returns the damaged content; the Damage record is completed with what was done.
func applyDamage(src []byte, d *Damage) []byte {
	clampOff := func(o int) int {
		if o < 0 {
			return 0
		}
		if o > len(src) {
			return len(src)
		}
		return o
	}
	off := clampOff(d.Off)
	end := clampOff(off + d.Len)
	switch d.Kind {
	case "truncate":
		return append([]byte{}, src[:off]...)
	case "flip":
		if off >= len(src) {
			return append([]byte{}, src...)
		}
		out := append([]byte{}, src...)
		if d.Text != "" {
			out[off] = d.Text[0]
		} else {
			out[off] ^= 1 << uint(d.Len%8)
		}
		return out
	case "drop":
		return append(append([]byte{}, src[:off]...), src[end:]...)
	case "dup":
		out := append([]byte{}, src[:end]...)
		out = append(out, src[off:end]...)
		return append(out, src[end:]...)
	case "swap":
		o2 := clampOff(d.Off2)
		e2 := clampOff(o2 + d.Len)
		if o2 < end { // overlapping or out of order: make it a no-op rather than guess
			return append([]byte{}, src...)
		}
		out := append([]byte{}, src[:off]...)
		out = append(out, src[o2:e2]...)
		out = append(out, src[end:o2]...)
		out = append(out, src[off:end]...)
		return append(out, src[e2:]...)
	case "insert":
		out := append([]byte{}, src[:off]...)
		out = append(out, d.Text...)
		return append(out, src[off:]...)
	case "random":
		// the stored file is replaced by Len pseudo-random bytes derived from Off (a lost file whose blocks were reused)
		rr := common.NewRng(uint64(d.Off) + 77)
		out := make([]byte, d.Len)
		for i := range out {
			out[i] = byte(rr.Intn(256))
		}
		return out
	case "repeat":
		// insert Text repeated Len times (deep nesting, long chains, many blank lines)
		out := append([]byte{}, src[:off]...)
		out = append(out, strings.Repeat(d.Text, d.Len)...)
		return append(out, src[off:]...)
	}
	return append([]byte{}, src...)
}

func randomDamage(r *common.Rng, src []byte) Damage {
	cands := interestingOffsets(src)
	off := pickOffset(r, src, cands)
	switch r.Intn(15) {
	case 14:
		return Damage{Kind: "random", Off: r.Intn(1 << 30), Len: []int{0, 1, 2, 7, 64, 700, 5000}[r.Intn(7)]}
	case 0, 1, 2:
		return Damage{Kind: "truncate", Off: off}
	case 3:
		b := []byte{' ', '\n', '"', '`', '/', '*', '(', ')', '{', '}', '|', '=', 'x', '0', '$', '\\', '<', '>', ';', ':', ',', '.', '_', '-', '\t', 0, 0xff}
		return Damage{Kind: "flip", Off: off, Text: string(b[r.Intn(len(b))])}
	case 4:
		return Damage{Kind: "flip", Off: off, Len: r.Intn(8)}
	case 5, 6:
		return Damage{Kind: "drop", Off: off, Len: pickLen(r, src, off, cands)}
	case 7, 8:
		return Damage{Kind: "dup", Off: off, Len: pickLen(r, src, off, cands)}
	case 9:
		l := pickLen(r, src, off, cands)
		o2 := pickOffset(r, src, cands)
		if o2 < off+l {
			o2 = off + l
		}
		return Damage{Kind: "swap", Off: off, Len: l, Off2: o2}
	case 10, 11, 12:
		o := off
		if r.Chance(1, 2) {
			// at a line start or at the end
			o = len(src)
			if r.Chance(1, 2) {
				if i := strings.LastIndex(string(src[:off]), "\n"); i >= 0 {
					o = i + 1
				} else {
					o = 0
				}
			}
		}
		return Damage{Kind: "insert", Off: o, Text: poison[r.Intn(len(poison))]}
	default:
		texts := []string{"(", "[", "\n", "1 + ", "not ", "f ", "  \n", "(fun x -> ", "|> f ", "{A=", "if true then ", "[1]; "}
		n := []int{50, 300, 1500, 6000}[r.Intn(4)]
		return Damage{Kind: "repeat", Off: off, Text: texts[r.Intn(len(texts))], Len: n}
	}
}

func pickLen(r *common.Rng, src []byte, off int, cands []int) int {
	switch r.Intn(4) {
	case 0:
		return 1
	case 1:
		return r.Range(1, 8)
	case 2:
		// up to the next interesting offset after off
		best := -1
		for _, c := range cands {
			if c > off && (best < 0 || c < best) {
				best = c
			}
		}
		if best > off {
			return best - off
		}
		return 1
	default:
		// to end of line
		if i := strings.Index(string(src[off:]), "\n"); i >= 0 {
			return i + 1
		}
		return len(src) - off
	}
}
