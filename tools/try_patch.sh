#!/bin/sh
# try_patch.sh <patch.diff> <property id>...   apply a property-breaking change to /repo, run the quick checks
# named (evidence/replays go to a throw-away VERIF_DIR so that committed evidence only ever comes from the
# unchanged tree), then restore /repo. Prints one line per check: <id> exit=<n> and the VIOLATION lines.
set -u
patch=$(readlink -f "$1"); shift
cd /repo || exit 2
if [ -n "$(git status --porcelain)" ]; then echo "/repo is not clean"; exit 2; fi
git apply "$patch" || { echo "patch does not apply"; exit 2; }
T=$(mktemp -d /dev/shm/tryv.XXXXXX)
cp -r /verif/corpus /verif/known_findings.json "$T/"; ln -s /verif/sim "$T/sim"
for p in "$@"; do
  out=$(cd /verif && VERIF_DIR="$T" ${TIER_ENV:-} ./bin/fosim check "$p" "${TIER:-quick}" 2>&1); rc=$?
  echo "$p exit=$rc"
  echo "$out" | egrep "^VIOLATION|^violation|^KNOWN-FINDING|HARNESS-ERROR" | head -6
  echo "$out" | egrep -A1 "^violation" | egrep -v "^violation|^--" | head -3 | cut -c1-400
done
if [ -n "${KEEP:-}" ]; then mkdir -p "$KEEP"; cp "$T"/replays/*.json "$KEEP"/ 2>/dev/null; fi
rm -rf "$T"
git checkout -- . && git clean -fdq
[ -z "$(git status --porcelain)" ] || echo "WARNING: /repo not clean after restore"
