#!/bin/sh
# recreate_seeded_full_regen.sh <seeded dir>   re-create a kept change whose patch regenerates every fc/gen_*.go
# after /repo moved on: apply only its non-generated hunks, regenerate fc to a fixed point (up to 4 rounds), samples and
# the tool, and rewrite patch.diff. /repo must be clean and is left clean.
set -e
d=$(readlink -f "$1"); cd /repo
[ -z "$(git status --porcelain)" ] || { echo "/repo not clean"; exit 2; }
git apply --3way --exclude='fc/gen_*' --exclude='samples/gen_*' --exclude='cmd/build_sample_md/gen_*' --exclude='samples/README.md' "$d/patch.diff"
git reset -q
export GOFLAGS=-mod=mod GOPROXY=off GOSUMDB=off GOTOOLCHAIN=local
S=$(mktemp -d /dev/shm/rg.XXXXXX); rsync -a --exclude .git /repo/ "$S/"
( cd "$S/fc"; for round in 1 2 3 4; do go build -o fc . && ./fc ../pkg/pkg_all.foi ftype.fo ast.fo expr_to_type.fo expr_to_go.fo stmt_to_go.fo tokenizer.fo ast_util.fo ir_factory.fo parse_state.fo infer.fo parser.fo main.fo >/dev/null && gofmt -w gen_*.go; done; cp gen_*.go /repo/fc/
  cd "$S/samples"; for f in $(sed 's/ .*$//' filelist.txt); do ../fc/fc ../pkg/pkg_all.foi $f >/dev/null; done; gofmt -w gen_*.go; cp gen_*.go /repo/samples/
  cd "$S/cmd/build_sample_md"; ../../fc/fc ../../pkg/pkg_all.foi build_sample_md.fo >/dev/null; gofmt -w gen_*.go; cp gen_*.go /repo/cmd/build_sample_md/; go build -o bsm .
  cd "$S/samples"; ../cmd/build_sample_md/bsm filelist.txt >/dev/null; cp README.md /repo/samples/ )
rm -rf "$S"
git diff > "$d/patch.diff"; git diff --stat | tail -1
git checkout -- .
