#!/bin/sh
# Regenerate fc/gen_*.go (and optionally everything else) from the .fo sources of /repo's working tree,
# in a scratch copy, and copy the gofmt-ed result back. Usage: regen.sh [fc|all]
set -e
export GOFLAGS=-mod=mod GOPROXY=off GOSUMDB=off GOTOOLCHAIN=local
S=$(mktemp -d /dev/shm/regen.XXXXXX)
trap 'rm -rf "$S"' EXIT
rsync -a --exclude .git "${REPO:-/repo}/" "$S/"
cd "$S/fc"
go build -o fc . 
./fc ../pkg/pkg_all.foi ftype.fo ast.fo expr_to_type.fo expr_to_go.fo stmt_to_go.fo tokenizer.fo ast_util.fo ir_factory.fo parse_state.fo infer.fo parser.fo main.fo
gofmt -w gen_*.go
# second generation must agree
go build -o fc2 .
mkdir gen1 && cp gen_*.go gen1/
./fc2 ../pkg/pkg_all.foi ftype.fo ast.fo expr_to_type.fo expr_to_go.fo stmt_to_go.fo tokenizer.fo ast_util.fo ir_factory.fo parse_state.fo infer.fo parser.fo main.fo >/dev/null
gofmt -w gen_*.go
for f in gen_*.go; do cmp "$f" "gen1/$f"; done
cp gen_*.go "${REPO:-/repo}/fc/"
if [ "$1" = all ]; then
  cd "$S/samples"
  for f in $(sed 's/ .*$//' filelist.txt); do ../fc/fc2 ../pkg/pkg_all.foi $f >/dev/null; done
  gofmt -w gen_*.go; cp gen_*.go "${REPO:-/repo}/samples/"
  cd "$S/cmd/build_sample_md"; ../../fc/fc2 ../../pkg/pkg_all.foi build_sample_md.fo >/dev/null; gofmt -w gen_*.go; cp gen_*.go "${REPO:-/repo}/cmd/build_sample_md/"
fi
echo regenerated
