#!/bin/sh
# sweep_seeded_parallel.sh [jobs]   like sweep_seeded.sh, but every change is applied to its own scratch worktree of
# /repo (VERIF_REPO) with its own scratch VERIF_DIR, so /repo is never touched and several run at once.
# ONLY='C0[457]*' restricts the sweep to ids matching that shell pattern.
cd /verif; jobs=${1:-3}; out=${OUT:-/tmp/sweep_par.txt}; : > "$out"
one() {
  d=$(readlink -f "$1"); id=$(basename "$d")
  p=$(python3 -c "import json;print(json.load(open('$d/meta.json'))['breaks_property'])")
  wt=/tmp/wt/sw_$id; T=$(mktemp -d /dev/shm/swv.XXXXXX)
  git -C /repo worktree add -q --detach "$wt" HEAD 2>/dev/null || { echo "$id $p exit=worktree-failed" >> "$out"; return; }
  if git -C "$wt" apply "$d/patch.diff" 2>/dev/null; then
    cp -r /verif/corpus /verif/known_findings.json "$T/"; ln -s /verif/sim "$T/sim"
    o=$(VERIF_REPO="$wt" VERIF_DIR="$T" ./bin/fosim check "$p" quick 2>&1); rc=$?
    sig=$(echo "$o" | sed -n 's/^violation class=[^ ]* signature=\(.*\)/\1/p' | head -1)
    echo "$id $p exit=$rc $sig" >> "$out"
  else
    echo "$id $p exit=patch-does-not-apply" >> "$out"
  fi
  rm -rf "$T"; git -C /repo worktree remove --force "$wt" >/dev/null 2>&1
}
n=0
for d in seeded/*/; do
  case "$(basename "$d")" in ${ONLY:-*}) ;; *) continue ;; esac
  one "${d%/}" &
  n=$((n+1)); if [ $((n % jobs)) -eq 0 ]; then wait; fi
done
wait; sort -o "$out" "$out"; echo done
