#!/bin/sh
# confirm_seeded.sh <change dir with patch.diff and demo/run.sh> [<worktree dir>]
# Confirms a property-breaking change in a scratch worktree of /repo: patch applies, everything builds, the
# 51 tests pass, the demonstration fails with the change and passes without it. Prints one summary line.
set -u
export GOFLAGS=-mod=mod GOPROXY=off GOSUMDB=off GOTOOLCHAIN=local
d=$(cd "$1" && pwd); wt=${2:-/tmp/wt/confirm.$$}
git -C /repo worktree add -q --detach "$wt" HEAD || exit 2
cleanup() { git -C /repo worktree remove --force "$wt" >/dev/null 2>&1; }
trap cleanup EXIT
runtests() { # prints number of passing tests
  n=0
  for m in cmd/build_sample_md fc pkg/buf pkg/dict pkg/frt pkg/slice pkg/strings pkg/sys tinyfo; do
    (cd "$wt/$m" && go build ./... >/dev/null 2>&1) || { echo "BUILD-FAIL $m"; return; }
    k=$(cd "$wt/$m" && go test -vet=off -count=1 -v ./... 2>/dev/null | grep -c "^--- PASS")
    f=$(cd "$wt/$m" && go test -vet=off -count=1 -v ./... 2>/dev/null | grep -c "^--- FAIL")
    [ "$f" = 0 ] || { echo "TEST-FAIL $m"; return; }
    n=$((n+k))
  done
  echo "$n"
}
demo() { (cd "$d/demo" && REPO="$wt" timeout 600 sh ./run.sh >/dev/null 2>&1); echo $?; }
clean_demo=$(demo)
(cd "$wt" && git checkout -q -- . && git clean -fdq)
(cd "$wt" && git apply "$d/patch.diff") || { echo "$1: PATCH-DOES-NOT-APPLY"; exit 1; }
tests=$(runtests)
(cd "$wt" && git checkout -q -- '*go.mod' '*go.sum' 2>/dev/null)
mut_demo=$(demo)
echo "$1: tests_with_change=$tests demo_clean_exit=$clean_demo demo_changed_exit=$mut_demo"
