#!/bin/sh
# Run the repository's test suite with the verif build tag OFF, in a scratch copy of /repo's working tree
# (go test -mod=mod would rewrite go.mod files inside /repo).
export GOFLAGS=-mod=mod GOPROXY=off GOSUMDB=off GOTOOLCHAIN=local
S=$(mktemp -d /dev/shm/baseline.XXXXXX)
trap 'rm -rf "$S"' EXIT
rsync -a --exclude .git "${REPO:-/repo}/" "$S/"
rc=0
for m in cmd/build_sample_md fc pkg/buf pkg/dict pkg/frt pkg/slice pkg/strings pkg/sys tinyfo; do
  (cd "$S/$m" && go build ./... && go test -vet=off -count=1 -timeout 25m "$@" ./...) || rc=1
done
exit $rc
