#!/bin/sh
# sweep_seeded.sh [tier]   every kept property-breaking change against the check of the property it breaks.
# One line per change: <id> <property> exit=<n> <first signature>. /repo is restored after each.
cd /verif
for d in seeded/*/; do
  id=$(basename "$d")
  p=$(python3 -c "import json;print(json.load(open('$d/meta.json'))['breaks_property'])")
  out=$(TIER=${1:-quick} ./tools/try_patch.sh "$d/patch.diff" "$p" 2>&1)
  rc=$(echo "$out" | sed -n 's/^C[0-9]* exit=\([0-9]*\).*/\1/p' | head -1)
  sig=$(echo "$out" | sed -n 's/^violation class=[^ ]* signature=\(.*\)/\1/p' | head -1)
  echo "$id $p exit=$rc $sig"
done
